import Tmv.Drv.Core
import Tmv.Sha256
import Tmv.Model.LightRpc
namespace Tmv.Drv.C20
open Tmv Tmv.Merkle Tmv.LightRpc

def Hs : Bytes → Bytes := Sha256.hash

structure St where
  inited : Bool := false
  n : Nat := 0
  lc : LC := { chain := [], stored := [] }
  metas : List (Option BlockMeta) := []
  txsAt : List (Int × List Bytes) := []
  stxs : List (Option ResultTx) := []

def hexList (s : String) : Option (List Bytes) := (splitComma s).mapM ofHex

def optInt (s : String) : Option (Option Int) :=
  if s = "nil" then some none else s.toInt?.map some

def parseBid (s : String) : Option BlockID :=
  match s.splitOn "/" with
  | [h, t, p] => do
    let h ← ofHex h
    let t ← t.toNat?
    let p ← ofHex p
    pure { hash := h, total := t, psHash := p }
  | _ => none

def parseHeader (t : List String) : Option Header := do
  let vb ← (← kv t "vb").toNat?
  let va ← (← kv t "va").toNat?
  let cid ← ofHex (← kv t "cid")
  let ht ← (← kv t "ht").toInt?
  let ts ← (← kv t "ts").toInt?
  let tn ← (← kv t "tn").toInt?
  let lb ← parseBid (← kv t "lb")
  let lch ← ofHex (← kv t "lch")
  let dh ← ofHex (← kv t "dh")
  let vh ← ofHex (← kv t "vh")
  let nvh ← ofHex (← kv t "nvh")
  let ch ← ofHex (← kv t "ch")
  let ah ← ofHex (← kv t "ah")
  let lrh ← ofHex (← kv t "lrh")
  let eh ← ofHex (← kv t "eh")
  let pa ← ofHex (← kv t "pa")
  pure { versionBlock := vb, versionApp := va, chainID := cid, height := ht, timeSec := ts, timeNanos := tn,
         lastBlockID := lb, lastCommitHash := lch, dataHash := dh, validatorsHash := vh,
         nextValidatorsHash := nvh, consensusHash := ch, appHash := ah, lastResultsHash := lrh,
         evidenceHash := eh, proposer := pa }

def parseVals (s : String) : Option (List Validator) :=
  (splitComma s).mapM fun e =>
    match e.splitOn ":" with
    | [a, p] => do
      let a ← ofHex a
      let p ← p.toInt?
      pure { address := a, power := p }
    | _ => none

def parseProofTok (s : String) : Option Proof :=
  match s.splitOn "/" with
  | [t, i, lh, au] => do
    let t ← t.toInt?
    let i ← i.toInt?
    let lh ← ofHex lh
    let au ← hexList au
    pure { total := t, index := i, leafHash := lh, aunts := au }
  | _ => none

def parseOp (s : String) : Option ProofOp :=
  match s.splitOn "/" with
  | [ty, k, dk, t, i, lh, au] => do
    let k ← ofHex k
    let t ← t.toInt?
    let i ← i.toInt?
    let lh ← ofHex lh
    let au ← hexList au
    pure { typeOK := ty = "1", key := k, dataOK := dk = "1", proof := { total := t, index := i, leafHash := lh, aunts := au } }
  | _ => none

def parseOps (s : String) : Option (List ProofOp) :=
  if s = "-" then some [] else (s.splitOn ";").mapM parseOp

def parseTxr (s : String) : Option (List TxResult) :=
  if s = "-" then some [] else
  (s.splitOn ";").mapM fun e =>
    match e.splitOn "/" with
    | [c, d, gw, gu] => do
      let c ← c.toNat?
      let d ← ofHex d
      let gw ← gw.toInt?
      let gu ← gu.toInt?
      pure { code := c, data := d, gasWanted := gw, gasUsed := gu }
    | _ => none

def showVerdict : Verdict → String
  | .ok => "ok" | .errNext => "err:next" | .errBlockID => "err:blockid" | .errBlock => "err:block"
  | .errIDMismatch => "err:idmismatch" | .errLC => "err:lc" | .errUntrusted => "err:untrusted"
  | .errHeight => "err:height" | .errParams => "err:params" | .errMeta => "err:meta"
  | .errRequest => "err:request" | .errHeightMismatch => "err:height-mismatch" | .errTxMismatch => "err:tx-mismatch" | .errHashMismatch => "err:hash-mismatch"
  | .errPage => "err:page" | .errCode => "err:code" | .errKey => "err:key"
  | .errNoOps => "err:noops" | .errKeyPath => "err:keypath" | .errProof => "err:proof"
  | .errProofDataHash => "err:proof-datahash" | .errProofIndex => "err:proof-index"
  | .errProofTotal => "err:proof-total" | .errProofInconsistent => "err:proof-inconsistent"

def showBinding : Binding → String
  | .headerHash => "headerHash" | .dataHash => "dataHash" | .lastCommitHash => "lastCommitHash"
  | .evidenceHash => "evidenceHash" | .consensusHash => "consensusHash" | .appHashNext => "appHashNext"
  | .lastResultsHashNext => "lastResultsHashNext" | .commitBlockID => "commitBlockID"
  | .fromLightClient => "fromLightClient" | .derivedFromProof => "derivedFromProof" | .none => "none"

def showVals (l : List Validator) : String :=
  if l.isEmpty then "-" else ",".intercalate (l.map fun v => s!"{hexOrDash v.address}:{v.power}")

def parseBlockRes (t : List String) : Option ResultBlock := do
  let bid ← parseBid (← kv t "bid")
  if (← kv t "nilblk") = "1" then pure { blockID := bid, block := none } else
  let hdr ← parseHeader t
  let txs ← hexList (← kv t "txs")
  let evs ← hexList (← kv t "evs")
  let sigs ← hexList (← kv t "lcsigs")
  pure { blockID := bid, block := some {
    header := hdr, txs := txs, evidence := evs, evidenceOK := (← kv t "evok") = "1",
    lastCommitNil := (← kv t "lcnil") = "1", lastCommitSigs := sigs, lastCommitOK := (← kv t "lcok") = "1" } }

def parseHits (s : String) : Option (List Hit) :=
  (splitComma s).mapM fun e =>
    match e.splitOn "/" with
    | [h, i] => do
      let h ← h.toInt?
      let i ← i.toNat?
      pure { height := h, index := i }
    | _ => none

def showServed (r : Hit × Option TxProof.TxProof) : String :=
  match r.2 with
  | some p => s!"{r.1.height}/{r.1.index}/{hexOrDash p.rootHash}/{hexOrDash p.data}/{p.proof.total}/{p.proof.index}/{hexOrDash p.proof.leafHash}/{hexListStr p.proof.aunts}"
  | none => s!"{r.1.height}/{r.1.index}/-/-/0/0/-/-"

def ready (s : St) : Bool := s.inited && s.lc.chain.length = s.n

def step (s : St) (toks : List String) : St × String :=
  match toks with
  | "chain" :: t =>
    match (kv t "n").bind String.toNat?, (kv t "nv").bind String.toNat?, (kv t "root").bind String.toNat? with
    | some n, some nv, some root =>
      if n < 1 ∨ n > 40 ∨ nv < 1 ∨ nv > 8 ∨ root < 1 ∨ root > n then (s, "bad-op")
      else ({ inited := true, n := n, lc := { chain := [], stored := [(root : Int)] }, metas := [], txsAt := [], stxs := [] }, "ok")
    | _, _, _ => (s, "bad-op")
  | ["routes"] => (s, ",".intercalate routeNames)
  | "route" :: t =>
    match kv t "name" with
    | some n =>
      (s, match routeClass n with
        | some .verified => "verified" | some .lightClient => "lightclient" | some .relayed => "relayed"
        | some .websocket => "websocket" | none => "unknown")
    | none => (s, "bad-op")
  | "stx" :: t =>
    if !ready s then (s, "bad-op") else
    if kv t "nil" = some "1" then ({ s with stxs := s.stxs ++ [none] }, "ok") else
    match (kv t "rhash").bind ofHex, (kv t "rht").bind String.toInt?, (kv t "ridx").bind String.toNat?,
          (kv t "rtx").bind ofHex, (kv t "rcode").bind String.toNat?, (kv t "rdata").bind ofHex,
          (kv t "proot").bind ofHex, (kv t "pdata").bind ofHex, (kv t "proof").bind parseProofTok with
    | some rh, some ht, some idx, some rtx, some rc, some rd, some proot, some pdata, some pr =>
      let tp : TxProof.TxProof := TxProof.TxProof.mk proot pdata pr
      ({ s with stxs := s.stxs ++ [some (ResultTx.mk rh ht idx rtx rc rd tp)] }, "ok")
    | _, _, _, _, _, _, _, _, _ => (s, "bad-op")
  | "txsearchv" :: t =>
    if !ready s then (s, "bad-op") else
    if kv t "err" = some "1" then ({ s with stxs := [] }, "err:next") else
    if kv t "prove" = some "0" then ({ s with stxs := [] }, "ok-unverified") else
    let (v, lc') := verifyTxSearch Hs s.lc s.stxs
    ({ s with lc := lc', stxs := [] }, showVerdict v)
  | "committed" :: t =>
    match kv t "kind", kv t "field" with
    | some k, some f =>
      (s, match committed k f with | some b => showBinding b | none => "unknown")
    | _, _ => (s, "bad-op")
  | "trust" :: t =>
    if !s.inited then (s, "bad-op") else
    match (kv t "h").bind String.toNat?, parseHeader t, (kv t "cbid").bind parseBid, (kv t "vals").bind parseVals with
    | some h, some hdr, some cb, some vals =>
      if h ≠ s.lc.chain.length + 1 ∨ h > s.n then (s, "bad-op")
      else
        ({ s with lc := { s.lc with chain := s.lc.chain ++ [{ header := hdr, commitBlockID := cb, vals := vals }] } },
          hexOrDash (hdr.hash Hs))
    | _, _, _, _ => (s, "bad-op")
  | "blocktxs" :: t =>
    if !ready s then (s, "bad-op") else
    match (kv t "h").bind String.toInt?, (kv t "txs").bind hexList with
    | some h, some txs => ({ s with txsAt := (h, txs) :: s.txsAt.filter (fun e => e.1 ≠ h) }, "ok")
    | _, _ => (s, "bad-op")
  | "txsearch" :: t =>
    if !ready s then (s, "bad-op") else
    match kv t "prove", (kv t "page").bind optInt, (kv t "per").bind optInt, kv t "order", (kv t "hits").bind parseHits with
    | some prove, some page, some per, some order, some hits =>
      if hits.any (fun h => (s.txsAt.lookup h.height).isNone) then (s, "bad-op") else
      let txsAt : Int → List Bytes := fun h => (s.txsAt.lookup h).getD []
      match txSearch Hs txsAt hits (if order = "-" then "" else order) (prove = "1") page per with
      | .error .order => (s, "err:order")
      | .error .page => (s, "err:page")
      | .ok (total, res) =>
        (s, s!"ok total={total} res=" ++ (if res.isEmpty then "-" else ";".intercalate (res.map showServed)))
    | _, _, _, _, _ => (s, "bad-op")
  | "meta" :: t =>
    if !ready s then (s, "bad-op") else
    if kv t "nil" = some "1" then ({ s with metas := s.metas ++ [none] }, "ok") else
    match (kv t "bid").bind parseBid, parseHeader t, (kv t "size").bind String.toInt?, (kv t "ntx").bind String.toInt? with
    | some bid, some hdr, some sz, some ntx =>
      ({ s with metas := s.metas ++ [some { blockID := bid, blockSize := sz, header := hdr, numTxs := ntx }] }, "ok")
    | _, _, _, _ => (s, "bad-op")
  | kind :: t =>
    if !ready s then (s, "bad-op") else
    let isErr := kv t "err" = some "1"
    match kind with
    | "block" | "blockbyhash" =>
      if isErr then (s, "err:next") else
      let req? : Option BlockReq :=
        if kind = "block" then ((kv t "req").bind optInt).map BlockReq.height
        else ((kv t "req").bind ofHex).map BlockReq.hash
      match parseBlockRes t, req? with
      | some res, some req =>
        let (v, lc') := verifyBlock Hs s.lc req res
        ({ s with lc := lc' }, showVerdict v)
      | _, _ => (s, "bad-op")
    | "bcinfo" =>
      if isErr then ({ s with metas := [] }, "err:next") else
      match (kv t "min").bind String.toInt?, (kv t "max").bind String.toInt? with
      | some mn, some mx =>
        let (v, lc') := verifyBlockchainInfo Hs s.lc mn mx s.metas
        ({ s with lc := lc', metas := [] }, showVerdict v)
      | _, _ => ({ s with metas := [] }, "bad-op")
    | "commit" =>
      match (kv t "req").bind optInt with
      | some req =>
        let ((v, lb), lc') := commit s.lc req
        ({ s with lc := lc' },
          match v, lb with
          | .ok, some l => s!"ok h={l.header.height} hash={hexOrDash (l.header.hash Hs)} canonical=true"
          | .ok, none => "bad-op"
          | .errLC, _ => "err:lc"
          | v, _ => showVerdict v)
      | none => (s, "bad-op")
    | "validators" =>
      match (kv t "req").bind optInt, (kv t "page").bind optInt, (kv t "per").bind optInt with
      | some req, some page, some per =>
        let ((v, r), lc') := validators s.lc req page per
        ({ s with lc := lc' },
          match v, r with
          | .ok, some r => s!"ok h={r.height} count={r.count} total={r.total} vals={showVals r.vals}"
          | .ok, none => "bad-op"
          | v, _ => showVerdict v)
      | _, _, _ => (s, "bad-op")
    | "tx" =>
      if isErr then (s, "err:next") else
      if kv t "prove" = some "0" then (s, "ok-unverified") else
      match (kv t "hash").bind ofHex with
      | none => (s, "bad-op")
      | some reqHash =>
      match (kv t "rhash").bind ofHex, (kv t "rht").bind String.toInt?, (kv t "ridx").bind String.toNat?,
            (kv t "rtx").bind ofHex, (kv t "rcode").bind String.toNat?, (kv t "rdata").bind ofHex,
            (kv t "proot").bind ofHex, (kv t "pdata").bind ofHex, (kv t "proof").bind parseProofTok with
      | some rh, some ht, some idx, some rtx, some rc, some rd, some proot, some pdata, some pr =>
        let tp : TxProof.TxProof := TxProof.TxProof.mk proot pdata pr
        let res : ResultTx := ResultTx.mk rh ht idx rtx rc rd tp
        let (v, lc') := verifyTx Hs s.lc reqHash res
        ({ s with lc := lc' }, showVerdict v)
      | _, _, _, _, _, _, _, _, _ => (s, "bad-op")
    | "abci" =>
      if isErr then (s, "err:next") else
      match kv t "store", (kv t "code").bind String.toNat?, (kv t "key").bind ofHex, kv t "val",
            (kv t "ht").bind String.toInt?, kv t "opsnil", (kv t "ops").bind parseOps with
      | some st, some code, some key, some val, some ht, some opsnil, some ops =>
        let store? : Option (Option Bytes) := if st = "none" then some none else (ofHex st).map some
        let val? : Option (Option Bytes) := if val = "nil" then some none else (ofHex val).map some
        match store?, val? with
        | some store, some value =>
          let (v, lc') := verifyABCI Hs s.lc store
            { code := code, key := key, value := value, height := ht, opsNil := opsnil = "1", ops := ops }
          ({ s with lc := lc' }, showVerdict v)
        | _, _ => (s, "bad-op")
      | _, _, _, _, _, _, _ => (s, "bad-op")
    | "cparams" =>
      if isErr then (s, "err:next") else
      match (kv t "req").bind optInt with
      | none => (s, "bad-op")
      | some req =>
      match (kv t "ht").bind String.toInt?, (kv t "mb").bind String.toInt?, (kv t "mg").bind String.toInt?,
            (kv t "iota").bind String.toInt?, (kv t "eab").bind String.toInt?, (kv t "ead").bind String.toInt?,
            (kv t "emb").bind String.toInt?, (kv t "pkt").bind String.toNat?, kv t "pktok" with
      | some ht, some mb, some mg, some iot, some eab, some ead, some emb, some pkt, some pktok =>
        let (v, lc') := verifyParams Hs s.lc req ht
          { maxBytes := mb, maxGas := mg, timeIotaMs := iot, evMaxAgeBlocks := eab, evMaxAgeDuration := ead,
            evMaxBytes := emb, pubKeyTypes := pkt, pubKeyTypesKnown := pktok = "1" }
        ({ s with lc := lc' }, showVerdict v)
      | _, _, _, _, _, _, _, _, _ => (s, "bad-op")
    | "bresults" =>
      if isErr then (s, "err:next") else
      match (kv t "req").bind optInt, kv t "status", (kv t "ht").bind String.toInt?, (kv t "txr").bind parseTxr with
      | some req, some status, some ht, some rs =>
        let h? : Option Int := match req with
          | some h => some h
          | none => status.toInt?.map (· - 1)
        match h? with
        | some h =>
          let (v, lc') := verifyBlockResults Hs s.lc h ht rs
          ({ s with lc := lc' }, showVerdict v)
        | none => (s, "bad-op")
      | _, _, _, _ => (s, "bad-op")
    | _ => (s, "bad-op")
  | _ => (s, "bad-op")

def machine : Machine := { σ := St, init := {}, step := step }

end Tmv.Drv.C20

def main : IO Unit := Tmv.Drv.run Tmv.Drv.C20.machine
