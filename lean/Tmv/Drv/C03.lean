import Tmv.Drv.Core
import Tmv.Model.Sync
/-! Line-protocol driver for the network of consensus node models (C03): the same schedule of
deliveries / faulty messages / majority claims / timer firings / closures that the Go stream runs
on n real `consensus.State`s is run on `Tmv.Sync` (every node a `Tmv.Cons.step` machine). -/
namespace Tmv.Drv.C03
open Tmv Tmv.Cons Tmv.Sync

structure St where
  cfg : Option SCfg
  ids : Nat
  net : Net

def natList (s : String) : Option (List Nat) := (splitComma s).mapM String.toNat?

def parseCfg (toks : List String) : Option (SCfg × Nat × List Nat) := do
  let n ← (← kv toks "n").toNat?
  let powers ← natList (← kv toks "powers")
  let props ← natList (← kv toks "proposers")
  let invalid ← natList (← kv toks "invalid")
  let correct ← natList (← kv toks "correct")
  let ids ← (← kv toks "ids").toNat?
  let tmo ← natList (← kv toks "tmo")
  let skew ← (← kv toks "skew").toNat?
  let tm ← match tmo with
    | [a, b, c, d, e, f] => some (⟨a, b, c, d, e, f⟩ : Timeouts)
    | _ => none
  if powers.length ≠ n ∨ n = 0 ∨ props.isEmpty ∨ correct.isEmpty then none else
  if correct.any (· ≥ n) ∨ !correct.Pairwise (· < ·) then none else
  pure ({ cfg := { n := n, power := fun i => powers.getD i 0, self := none,
                   proposer := fun k => props.getD k 0, valid := fun b => !invalid.contains b,
                   ownBlock := 0, waitForTxs := false, needProofBlock := true, emptyInterval := false,
                   checkHRS := false },
          tmo := tm, skew := skew }, ids, correct)

def parseBid (s : String) : Option Bid :=
  if s = "nil" then some none else s.toNat?.map some

def parseVType (s : String) : Option VType :=
  if s = "pv" then some .prevote else if s = "pc" then some .precommit else none

def stepName : Step → String
  | .newHeight => "newHeight" | .newRound => "newRound" | .propose => "propose"
  | .prevote => "prevote" | .prevoteWait => "prevoteWait" | .precommit => "precommit"
  | .precommitWait => "precommitWait" | .commit => "commit"

/-- a message a faulty validator may send; the same range checks as the Go side (`n` validators,
block ids `< ids`, of which the last has no block) -/
def parseMsg (n ids : Nat) (toks : List String) : Option Msg :=
  match toks with
  | "prop" :: rest => do
    let r ← (← kv rest "r").toNat?
    let b ← (← kv rest "b").toNat?
    let pol ← (← kv rest "pol").toInt?
    let by_ ← (← kv rest "by").toNat?
    if r > 1000 ∨ b ≥ ids ∨ by_ ≥ n ∨ pol < -1000 ∨ pol > 1000 then none else
    pure (.proposal { round := r, bid := b, pol := pol, signer := by_ })
  | "block" :: rest => do
    let b ← (← kv rest "b").toNat?
    if b + 2 > ids then none else
    pure (.block b)
  | "vote" :: rest => do
    let t ← parseVType (← kv rest "t")
    let r ← (← kv rest "r").toNat?
    let b ← parseBid (← kv rest "b")
    let v ← (← kv rest "v").toNat?
    if r > 1000 ∨ v ≥ n ∨ (b.getD 0) ≥ ids then none else
    pure (.vote ⟨t, r, b, v, true, v, v⟩)
  | _ => none

def showBid : Bid → String
  | none => "nil"
  | some b => toString b

def showOB : Option Nat → String
  | none => "-"
  | some b => toString b

def showMsg : Msg → String
  | .proposal p => s!"prop({p.round},{p.bid},{p.pol},{p.signer})"
  | .block b => s!"block({b})"
  | .vote v => (match v.typ with | .prevote => "pv" | .precommit => "pc") ++ s!"({v.round},{showBid v.bid},{v.val})"

def showOut : Output → String
  | .signProposal r b pol => s!"prop({r},{b},{pol})"
  | .signVote .prevote r b => s!"pv({r},{showBid b})"
  | .signVote .precommit r b => s!"pc({r},{showBid b})"
  | .schedule r st => s!"to({r},{stepName st})"
  | .decide b r => s!"decide({b},{r})"
  | .panic why => s!"panic({why})"

def showVS (ids : Nat) (vs : VoteSet) : String :=
  let keys : List Bid := none :: (List.range ids).map some
  let buckets := keys.filterMap fun k =>
    let x := vs.blockSum k
    if x = 0 then none else some s!"{showBid k}={x}"
  let m := match vs.maj23 with | none => "-" | some b => showBid b
  s!"{vs.sum}/{m}/" ++ (if buckets.isEmpty then "-" else "+".intercalate buckets)

def showHV (ids : Nat) (h : HVS) : String :=
  let rounds : List Int := (List.range (roundCap + 2)).map fun (i : Nat) => (i : Int) - 1
  ",".intercalate (rounds.filterMap fun r =>
    (h.getRound r).map fun rvs => s!"{r}:P{showVS ids rvs.prevotes}:C{showVS ids rvs.precommits}")

def showPending : Option (Nat × Step × Nat) → String
  | none => "-"
  | some (r, st, e) => s!"{r}/{stepName st}@{e}"

def showNode (sc : SCfg) (ids : Nat) (nd : Node) : String :=
  let c := sc.cfg
  let s := nd.s
  let head := s!"n{nd.idx} "
  if s.halted then head ++ "halted" else
  match s.decided with
  | some (b, r) => head ++ s!"decided {b}@{r}"
  | none =>
    let prop := match s.proposal with
      | none => "-"
      | some p => s!"{p.bid}/{p.pol}"
    head ++
    s!"r={s.round} s={stepName s.step} lr={s.lockedRound} lb={showOB s.lockedBlock} " ++
    s!"vr={s.validRound} vb={showOB s.validBlock} prop={prop} pb={showOB s.proposalBlock} " ++
    s!"pp={showOB s.proposalParts}/{if s.partsDone then 1 else 0} cr={s.commitRound} " ++
    s!"tp={if s.triggered then 1 else 0} pr={c.proposer s.valRound} q={s.queue.length} " ++
    s!"tk={showPending nd.tick.pending} hr={s.votes.round} hv={showHV ids s.votes}"

/-- answer of an op that acts on one node: its state and what it emitted during the op -/
def nodeAnswer (c : SCfg) (ids : Nat) (before after : Net) (i : Nat) : String :=
  match before.nodes[i]?, after.nodes[i]? with
  | some a, some b =>
    let news := b.s.out.drop a.s.out.length
    showNode c ids b ++ " |" ++ String.join (news.map fun o => " " ++ showOut o)
  | _, _ => "bad-op"

def posOf (net : Net) (toks : List String) (key : String) : Option Nat := do
  let v ← (← kv toks key).toNat?
  let i := net.nodes.findIdx (fun nd => nd.idx = v)
  if i < net.nodes.length then some i else none

def step (st : St) (toks : List String) : St × String :=
  match toks with
  | "cfg" :: rest =>
    match parseCfg rest with
    | some (c, ids, correct) => ({ cfg := some c, ids := ids, net := Net.init correct }, "ok")
    | none => ({ st with cfg := none }, "bad-op")   -- the Go side drops its nodes as well
  | _ =>
    match st.cfg with
    | none => (st, "bad-op")
    | some c =>
      let net := st.net
      match toks with
      | ["dl", a, b] =>
        match posOf net [a, b] "node", (kv [a, b] "k").bind String.toNat? with
        | some i, some k =>
          if k ≥ net.log.length then (st, "bad-op") else
          let net' := { net.deliver c i k with closed := false }
          ({ st with net := net' }, nodeAnswer c st.ids net net' i)
        | _, _ => (st, "bad-op")
      | "byz" :: rest =>
        match parseMsg c.cfg.n st.ids rest with
        | some m =>
          match net.byz m with
          | some net' => ({ st with net := net' }, s!"log={net'.log.findIdx (· = m)}")
          | none => (st, "refused")
        | none => (st, "bad-op")
      | ["claim", a, b] =>
        match posOf net [a, b] "node", posOf net [a, b] "from" with
        | some i, some j =>
          let net' := net.claim c i j
          ({ st with net := { net' with closed := false } }, nodeAnswer c st.ids net net' i)
        | _, _ => (st, "bad-op")
      | "byzclaim" :: rest =>
        match posOf net rest "node", (kv rest "peer").bind String.toNat?,
              (kv rest "t").bind parseVType, (kv rest "r").bind String.toNat?, (kv rest "b").bind parseBid with
        | some i, some peer, some t, some r, some b =>
          if r > 1000 then (st, "bad-op") else
          if peer = 0 ∨ peer > c.cfg.n ∨ net.nodes.any (fun nd => nd.idx + 1 = peer) then (st, "refused") else
          let net' := net.input c i (.peerMaj23 r t peer b)
          ({ st with net := net' }, nodeAnswer c st.ids net net' i)
        | _, _, _, _, _ => (st, "bad-op")
      | ["fire", a] =>
        match posOf net [a] "node" with
        | some i =>
          if net.synced ∧ !net.closed then (st, "not-idle") else
          if !net.fireAllowed c i then (st, "not-due") else
          match (net.nodes[i]?).bind (·.tick.pending) with
          | none => (st, "none")
          | some _ =>
            let net' := net.fire c i
            ({ st with net := net' }, nodeAnswer c st.ids net net' i)
        | none => (st, "bad-op")
      | ["closure"] =>
        let net' := net.closure c
        let newLog := net'.log.drop net.log.length
        ({ st with net := net' },
          s!"closed p={match closureCount c closureFuel net with | some k => toString k | none => "fuel"} log={net'.log.length} new=" ++ (if newLog.isEmpty then "-" else ",".intercalate (newLog.map showMsg)) ++
          String.join (net'.nodes.map fun nd => " ;; " ++ showNode c st.ids nd))
      | ["sync"] =>
        ({ st with net := { net with synced := true } }, s!"sync R={net.maxRound}")
      | ["end"] =>
        let dec := net.nodes.map fun nd => match nd.s.decided with
          | some (b, r) => s!"{b}@{r}" | none => if nd.s.halted then "halted" else "-"
        let pend := net.nodes.map fun nd => showPending nd.tick.pending
        (st, s!"end decided={",".intercalate dec} pending={",".intercalate pend} closed={if net.closed then 1 else 0} R={net.maxRound} now={net.now}")
      | _ => (st, "bad-op")

def machine : Machine := { σ := St, init := ⟨none, 0, Net.init []⟩, step := step }

end Tmv.Drv.C03

def main : IO Unit := Tmv.Drv.run Tmv.Drv.C03.machine
