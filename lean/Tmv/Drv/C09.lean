import Tmv.Drv.Core
import Tmv.Model.Light
/-! Line-protocol driver for C09 (light client). Ops:
  vs id=<n> vals=<vid:pow,...> ord=<vids in the set's own order (power desc, address asc)>
  blk id=<n> chain=<n> h=<int> t=<int> vals=<vs> hv=<vs> next=<vs> last=<blk|0> app=<n> basic=<0|1> commit=<0|1>
      sign=<vids|-> (valid for-block signatures) badsig=<vids|-> (for-block flag, invalid signature) nilv=<vids|-> (nil votes)
  prov id=<n> chain=<n> blocks=<blk,...|-> late=<k>:<blk,...> ov=<call>:<resp>,... (resp: noresp|notfound|toohigh|bad|b<blk>)
  new chain= period= h= hash=<blk|0> seq=<0|1> num= den= drift= prune= primary=<prov> wit=<prov,...> order=<prov,...>
      [keep=1 opts=<0|1>]  keep=1: on the existing store (opts=0 NewClientFromTrustedStore, opts=1 NewClient with the trust options)
  cleanup
  vheader blk=<blk> now= order=<prov,...>
  verify h= now= order=<prov,...>
  update now= order=<prov,...>
Hash ids are interned in order of first appearance (the Go side interns the real hashes the same way). -/
namespace Tmv.Drv.C09
open Tmv Tmv.Light

structure St where
  vsTab : List String := []
  hdrTab : List String := []
  vss : List (Nat × ValSet) := []
  blks : List (Nat × LightBlock) := []
  provs : List (Nat × Prov) := []
  client : Option Client := none   -- the session: store, provider call state, evidence
  alive : Bool := false            -- whether the last constructor call returned a usable client

def intern (tab : List String) (s : String) : List String × Nat :=
  match tab.idxOf? s with
  | some i => (tab, i + 1)
  | none => (tab ++ [s], tab.length + 1)

def lookup {α} (l : List (Nat × α)) (k : Nat) : Option α := (l.find? fun p => p.1 == k).map Prod.snd

def natList (s : String) : Option (List Nat) := (splitComma s).mapM String.toNat?

def parsePairs (s : String) : Option (List (Nat × Nat)) :=
  (splitComma s).mapM fun t =>
    match t.splitOn ":" with
    | [a, b] => do pure ((← a.toNat?), (← b.toNat?))
    | _ => none

def strictlyAsc : List (Nat × Nat) → Bool
  | [] => true
  | [_] => true
  | a :: b :: r => a.1 < b.1 && strictlyAsc (b :: r)

def showPairs (l : List (Nat × Nat)) : String := ",".intercalate (l.map fun p => s!"{p.1}:{p.2}")

def showPErr : PErr → String
  | .noResponse => "noresp" | .notFound => "notfound" | .tooHigh => "toohigh" | .bad => "bad"

def showErr : Err → String
  | .notAdjacent => "not-adjacent" | .notNonAdjacent => "not-non-adjacent" | .expired => "expired"
  | .invalidHeader => "invalid-header" | .cantBeTrusted => "cant-be-trusted"
  | .nextValsMismatch => "next-vals" | .commitOther => "commit-other"
  | .prov e => "prov-" ++ showPErr e
  | .noWitnesses => "no-witnesses" | .crossRef => "cross-ref" | .attack => "attack"
  | .conflicting _ => "conflicting"
  | .vfail f t r => s!"vf({f},{t},{showErr r})"
  | .msg t => "msg-" ++ t
  | .panic => "panic" | .fuel => "fuel"

def parseResp (st : St) (s : String) : Option Resp :=
  if s = "noresp" then some (.err .noResponse)
  else if s = "notfound" then some (.err .notFound)
  else if s = "toohigh" then some (.err .tooHigh)
  else if s = "bad" then some (.err .bad)
  else if s.startsWith "b" then do
    let b ← lookup st.blks (← (s.drop 1).toNat?)
    pure (.ok b)
  else none

def maxHeight : List LightBlock → Int
  | [] => 0
  | b :: r => max b.height (maxHeight r)

/-- the scripted provider: per-call overrides, else the block table (later entries win) -/
def mkScript (blocks late : List LightBlock) (lateAt : Nat) (ov : List (Nat × Resp)) (i : Nat) (h : Int) : Resp :=
  match lookup ov i with
  | some r => r
  | none =>
    let avail := if i ≥ lateAt then blocks ++ late else blocks
    let latest := maxHeight avail
    if h > latest then .err .tooHigh
    else
      let h' := if h = 0 then latest else h
      match avail.reverse.find? fun b => b.height == h' with
      | some b => .ok b
      | none => .err .notFound

def mkSched (order : List Nat) (ws : List Prov) : List Nat :=
  let idx := List.range ws.length
  let pri := order.flatMap fun o => idx.filter fun i => (ws[i]?.map (·.id)) == some o
  pri ++ idx.filter fun i => !pri.contains i

def showBlk (b : LightBlock) : String := s!"{b.height}:{b.hash}"

def showStore (c : Client) : String :=
  let store := if c.store.blocks.isEmpty then "-" else ",".intercalate (c.store.blocks.map showBlk)
  s!"store={store} size={c.store.size}"

def showClient (c : Client) : String :=
  let store := if c.store.blocks.isEmpty then "-" else ",".intercalate (c.store.blocks.map showBlk)
  let latest := match c.latest with | some b => showBlk b | none => "-"
  let wits := if c.witnesses.isEmpty then "-" else ",".intercalate (c.witnesses.map fun w => toString w.id)
  let ev := if c.evidence.isEmpty then "-" else
    ",".intercalate (c.evidence.map fun e =>
      let byz := (sortDesc (e.2.byzantine.map fun p => p.1 * 1000 + p.2)).reverse
      let bs := if byz.isEmpty then "-" else "+".intercalate (byz.map fun x => s!"{x / 1000}/{x % 1000}")
      s!"{e.1}:{e.2.conflicting}:{e.2.commonHeight}:{e.2.totalPower}:{e.2.timestamp}:{bs}")
  let calls := ",".intercalate ((c.primary :: c.witnesses).map fun p => s!"{p.id}:{c.calls p.id}")
  s!"store={store} size={c.store.size} latest={latest} prim={c.primary.id} wits={wits} ev={ev} calls={calls}"

def fuelDefault : Nat := 4000

def step (st : St) (toks : List String) : St × String :=
  let bad := (st, "bad-op")
  match toks with
  | "vs" :: rest =>
    match (kv rest "id").bind String.toNat?, (kv rest "vals").bind parsePairs, (kv rest "ord").bind natList with
    | some id, some vals, some ord =>
      if vals.isEmpty || !strictlyAsc vals || vals.any (fun p => p.2 = 0 || p.1 ≥ 10) then bad else
      -- `ord` must be a permutation of the ids
      if ord.length ≠ vals.length || !ord.all (fun i => vals.any fun p => p.1 == i) || !ord.Nodup then bad else
      let (tab, h) := intern st.vsTab (showPairs vals)
      let ordered := ord.filterMap fun i => vals.find? fun p => p.1 == i
      ({ st with vsTab := tab, vss := (id, { vals := ordered, hash := h }) :: st.vss }, s!"vs {h}")
    | _, _, _ => bad
  | "blk" :: rest =>
    let n := fun k => (kv rest k).bind String.toNat?
    match n "id", n "chain", (kv rest "h").bind String.toInt?, (kv rest "t").bind String.toInt?,
          (n "vals").bind (lookup st.vss), (n "hv").bind (lookup st.vss), (n "next").bind (lookup st.vss),
          n "last", n "app", n "basic", n "commit", (kv rest "sign").bind natList,
          (kv rest "badsig").bind natList, (kv rest "nilv").bind natList with
    | some id, some chain, some h, some t, some vals, some hv, some nxt, some last, some app,
      some basic, some commit, some sign, some badsig, some nilv =>
      let lastHash := if last = 0 then some 0 else (lookup st.blks last).map (·.hash)
      match lastHash with
      | none => bad
      | some lh =>
        if h < 1 || t < 0 || (sign ++ badsig ++ nilv).any (fun s => !(vals.vals.any fun p => p.1 == s))
            || !(sign ++ badsig ++ nilv).Nodup then bad else
        let content := s!"{chain}|{h}|{t}|{hv.hash}|{nxt.hash}|{lh}|{app}|{basic}"
        let (tab, hh) := intern st.hdrTab content
        let hdr : Header := {
          chain := chain, height := h, time := t, valsHash := hv.hash, lastBlockHash := lh,
          appHash := app, consHash := 0, resHash := 0, basicOK := basic != 0, hash := hh,
          nextValsHash := nxt.hash }
        let sigs : List (CommitVerify.CommitSig Nat) := vals.vals.map fun p =>
          if sign.contains p.1 then { flag := 2, addr := [UInt8.ofNat p.1], ts := t, sig := 1 }
          else if badsig.contains p.1 then { flag := 2, addr := [UInt8.ofNat p.1], ts := t, sig := 0 }
          else if nilv.contains p.1 then { flag := 3, addr := [UInt8.ofNat p.1], ts := t, sig := 1 }
          else { flag := 1, addr := [], ts := 0, sig := 0 }
        let cm : CommitVerify.Commit Nat := {
          height := (if commit != 0 then h else h + 1), round := 0
          blockID := { hash := List.replicate 32 (UInt8.ofNat hh), total := 1, psHash := List.replicate 32 1 }
          sigs := sigs }
        let b : LightBlock := { hdr := hdr, commitOK := commit != 0, commit := cm, vals := vals }
        ({ st with hdrTab := tab, blks := (id, b) :: st.blks }, s!"blk {hh}")
    | _, _, _, _, _, _, _, _, _, _, _, _, _, _ => bad
  | "prov" :: rest =>
    let blkList := fun (s : String) => (natList s).bind fun l => l.mapM (lookup st.blks)
    let late : Option (Nat × List LightBlock) :=
      match kv rest "late" with
      | none => some (0, [])
      | some s => match s.splitOn ":" with
        | [k, l] => do pure ((← k.toNat?), (← blkList l))
        | _ => none
    let ov : Option (List (Nat × Resp)) :=
      match kv rest "ov" with
      | none => some []
      | some s => (splitComma s).mapM fun t => match t.splitOn ":" with
        | [k, r] => do pure ((← k.toNat?), (← parseResp st r))
        | _ => none
    match (kv rest "id").bind String.toNat?, (kv rest "chain").bind String.toNat?,
          (kv rest "blocks").bind blkList, late, ov with
    | some id, some chain, some blocks, some (k, lt), some ov =>
      let p : Prov := { id := id, chain := chain, script := mkScript blocks lt k ov }
      ({ st with provs := (id, p) :: st.provs }, "ok")
    | _, _, _, _, _ => bad
  | "new" :: rest =>
    let n := fun k => (kv rest k).bind String.toNat?
    let i := fun k => (kv rest k).bind String.toInt?
    let provList := fun k => ((kv rest k).bind natList).bind fun l => l.mapM (lookup st.provs)
    match n "chain", i "period", i "h", n "hash", n "seq", n "num", n "den", i "drift", n "prune",
          (n "primary").bind (lookup st.provs), provList "wit", (kv rest "order").bind natList with
    | some chain, some period, some h, some hash, some seq, some num, some den, some drift,
      some prune, some primary, some wits, some order =>
      let hashV := if hash = 0 then some 0 else (lookup st.blks hash).map (·.hash)
      match hashV with
      | none => bad
      | some hv =>
        let cfg : Config := {
          chain := chain, period := period, sequential := seq != 0,
          level := if seq != 0 then { num := 1, den := 3 } else { num := num, den := den },
          drift := drift, pruning := prune, fuel := fuelDefault, sigOK := (fun _ _ s => s == 1) }
        match (kv rest "keep"), st.client with
        | some "1", some base =>
          match (kv rest "opts").bind String.toNat? with
          | none => bad
          | some opts =>
            let (c, e) := newClientOn base cfg primary wits (mkSched order) (opts != 0) period h hv
            match e with
            | none => ({ st with client := some c, alive := true }, "ok " ++ showClient c)
            | some er => ({ st with client := some c, alive := false },
                s!"err {showErr er} {showStore c}")
        | some "1", none => bad
        | some _, _ => bad
        | none, _ =>
          match newClient cfg primary wits (mkSched order) period h hv with
          | .error e => ({ st with client := none, alive := false }, "err " ++ showErr e)
          | .ok c => ({ st with client := some c, alive := true }, "ok " ++ showClient c)
    | _, _, _, _, _, _, _, _, _, _, _, _ => bad
  | "verify" :: rest =>
    match (if st.alive then st.client else none), (kv rest "h").bind String.toInt?, (kv rest "now").bind String.toInt?,
          (kv rest "order").bind natList with
    | some c, some h, some now, some order =>
      let (c', r) := verifyLightBlockAtHeight { c with sched := mkSched order } h now
      ({ st with client := some c' },
        (match r with | .ok b => "ok " ++ showBlk b | .error e => "err " ++ showErr e) ++ " " ++ showClient c')
    | _, _, _, _ => bad
  | "update" :: rest =>
    match (if st.alive then st.client else none), (kv rest "now").bind String.toInt?, (kv rest "order").bind natList with
    | some c, some now, some order =>
      let (c', r) := update { c with sched := mkSched order } now
      ({ st with client := some c' },
        (match r with
          | .ok (some b) => "ok " ++ showBlk b
          | .ok none => "ok -"
          | .error e => "err " ++ showErr e) ++ " " ++ showClient c')
    | _, _, _ => bad
  | ["cleanup"] =>
    match (if st.alive then st.client else none) with
    | some c => let c' := cleanup c; ({ st with client := some c' }, "ok " ++ showClient c')
    | none => bad
  | "vheader" :: rest =>
    match (if st.alive then st.client else none), ((kv rest "blk").bind String.toNat?).bind (lookup st.blks),
          (kv rest "now").bind String.toInt?, (kv rest "order").bind natList with
    | some c, some b, some now, some order =>
      let (c', r) := verifyHeader { c with sched := mkSched order } b.hash b.height now
      ({ st with client := some c' },
        (match r with | .ok _ => "ok" | .error e => "err " ++ showErr e) ++ " " ++ showClient c')
    | _, _, _, _ => bad
  | ["level", a, b] =>
    match a.toNat?, b.toNat? with
    | some x, some y => (st, if validateTrustLevel { num := x, den := y } then "ok" else "err")
    | _, _ => bad
  | _ => bad

def machine : Machine := { σ := St, init := {}, step := step }

end Tmv.Drv.C09

def main : IO Unit := Tmv.Drv.run Tmv.Drv.C09.machine
