import Tmv.Drv.Core
import Tmv.Model.MConn
import Tmv.Model.PeerMsgs
import Tmv.Model.PeerState
import Tmv.Model.ReactorMsgs
namespace Tmv.Drv.C17
open Tmv Tmv.MConn

/-- a sender and a receiver joined by a wire (the `pair` stream): packets go straight from
`sendPacketMsg` into `recvFrame` -/
structure Pair where
  s : Sender
  r : Receiver
  log : List (Nat × Bytes) := []
  ids : List Nat

structure St where
  snd : Option Sender := none
  rcv : Option Receiver := none
  pair : Option Pair := none
  reactor : Bool := false
  consensus : Bool := false
  prs : PeerState.PRS := {}
  pexMarker : Nat := 0
  valSize : Int := 4
  pnetK : Nat := 0
  sched : List PCh := []
  pexSeed : Bool := false
  tnode : Bool := false
  snode : Bool := false

/-- one `sendPacketMsg` whose packet is handed to the receive loop; `false` = nothing pending -/
def pairStep (p : Pair) : Pair × Bool :=
  let (s', o) := sendPacketMsg p.s 256
  match o with
  | none => ({ p with s := s' }, false)
  | some q =>
    let (r', out) := recvFrame p.r { len := packetSize q.chId.toNat q.eof q.data.length, pkt := .msg q }
    let log := match out with
      | .deliver ch m => p.log ++ [(ch, m)]
      | _ => p.log
    ({ p with s := s', r := r', log := log }, true)

def pairDrain : Nat → Pair → Pair
  | 0, p => p
  | f+1, p => let (p', more) := pairStep p; if more then pairDrain f p' else p'

/-- blocking `Send`: waits for room in the queue while the send routine makes progress -/
def pairSend (ch : Nat) (m : Bytes) : Nat → Pair → Pair × Bool
  | 0, p => (p, false)
  | f+1, p =>
    if (p.s.chans.find? (·.id = ch)).isNone then (p, false) else
    let (s', ok) := trySend p.s ch m
    if ok then ({ p with s := s' }, true)
    else
      let (p', more) := pairStep p
      if more then pairSend ch m f p' else (p', false)

/-- `id:prio:qcap:rcap` -/
def parsePDescs (s : String) : Option (List Desc) :=
  (splitComma s).mapM fun e => do
    match ← (e.splitOn ":").mapM String.toNat? with
    | [id, _prio, q, c] => pure { id := id, sendQueueCapacity := q, recvMessageCapacity := c }
    | _ => none

def parseNats (s : String) : Option (List Nat) := (s.splitOn ":").mapM String.toNat?

/-- `id:prio:qcap` (sender) -/
def parseSDescs (s : String) : Option (List Desc) :=
  (splitComma s).mapM fun e => do
    match ← parseNats e with
    | [id, _prio, q] => pure { id := id, sendQueueCapacity := q, recvMessageCapacity := 0 }
    | _ => none

/-- `id:prio:qcap`: what the least-ratio choice reads -/
def parseSched (s : String) : Option (List PCh) :=
  (splitComma s).mapM fun e => do
    match ← parseNats e with
    | [id, prio, _q] => pure { id := id, prio := prio, recentlySent := 0 }
    | _ => none

/-- the channels `sendPacketMsg` sees as pending (after its `isSendPending` pass) -/
def pendingIds (s : Sender) : List Nat :=
  ((s.chans.map fun c => (isSendPending c).1).filter (·.sending.isSome)).map (·.id)

/-- `id:recvcap` (receiver) -/
def parseRDescs (s : String) : Option (List Desc) :=
  (splitComma s).mapM fun e => do
    match ← parseNats e with
    | [id, c] => pure { id := id, sendQueueCapacity := 0, recvMessageCapacity := c }
    | _ => none

def showBool (b : Bool) : String := if b then "true" else "false"

def showQs (s : Sender) : String :=
  ",".intercalate (s.chans.map fun c => s!"{c.id}:{sendQueueSize c}")

def showBufs (r : Receiver) : String :=
  ",".intercalate (r.chans.map fun c => s!"{c.id}:{c.recving.length}")

def showErr : Err → String
  | .badVarint => "bad-varint" | .badLength => "bad-length" | .tooBig => "too-big"
  | .undecodable => "undecodable" | .unknownType => "unknown-type"
  | .unknownChannel => "unknown-channel" | .overCapacity => "over-capacity"

def showOut : Out → String
  | .nothing => "ok"
  | .deliver ch m => s!"recv={ch}:{hexOrDash m}"
  | .error e => "err:" ++ showErr e
  | .closed => "closed"

def parseBool (s : String) : Option Bool :=
  if s = "1" ∨ s = "true" then some true else if s = "0" ∨ s = "false" then some false else none

def parsePacket (toks : List String) : Option Packet := do
  match ← kv toks "dec" with
  | "ping" => pure .ping
  | "pong" => pure .pong
  | "nosum" => pure .nosum
  | "bad" => pure .bad
  | "msg" =>
    let ch ← (← kv toks "ch").toInt?
    let eof ← parseBool (← kv toks "eof")
    let data ← ofHex (← kv toks "data")
    pure (.msg { chId := ch, eof := eof, data := data })
  | _ => none

def parseBits (toks : List String) : Option (Option PeerMsgs.BitArr) := do
  let b ← kv toks "bits"
  let e ← (← kv toks "elems").toNat?
  if b = "nil" then pure none else
  let bi ← b.toInt?
  pure (some { bits := bi, elems := e })

def verdict (b : Bool) : String := if b then "ok" else "stopped"

/-- the verdict of `Reactor.Receive` for the consensus messages whose `ValidateBasic` is modelled
(initial height 1): valid → handled, invalid → `StopPeerForError` -/
def modelledVerdict (kind : String) (toks : List String) : Option String := do
  let int (k : String) : Option Int := (kv toks k).bind String.toInt?
  match kind with
  | "newroundstep" =>
    let m : PeerMsgs.NewRoundStep :=
      { height := ← int "h", round := ← int "r", step := ← (← kv toks "s").toNat?, lastCommitRound := ← int "lcr" }
    pure (verdict (m.valid 1))
  | "newvalidblock" =>
    let m : PeerMsgs.NewValidBlock :=
      { height := ← int "h", round := ← int "r", total := ← (← kv toks "total").toNat?,
        hashLen := ← (← kv toks "hashlen").toNat?, parts := ← parseBits toks }
    pure (verdict m.valid)
  | "proposalpol" =>
    let m : PeerMsgs.ProposalPOL := { height := ← int "h", polRound := ← int "polr", pol := ← parseBits toks }
    pure (verdict m.valid)
  | "hasvote" =>
    let m : PeerMsgs.HasVote := { height := ← int "h", round := ← int "r", type := ← int "t", index := ← int "idx" }
    pure (verdict m.valid)
  | "votesetbits" =>
    let m : PeerMsgs.VoteSetBits :=
      { height := ← int "h", round := ← int "r", typeOk := ← parseBool (← kv toks "tok"),
        blockIdOk := ← parseBool (← kv toks "bidok"), votes := ← parseBits toks }
    pure (verdict m.valid)
  | _ => none


def showBA : Option PeerMsgs.BitArr → String
  | none => "nil"
  | some b => s!"{b.bits}:{b.elems}"

def showPRS (p : PeerState.PRS) : String :=
  s!"prs={p.height}/{p.round}/{p.step} prop={if p.proposal then 1 else 0} tot={p.pbpTotal} pbp={showBA p.pbp} " ++
  s!"polr={p.polRound} pol={showBA p.pol} pv={showBA p.prevotes} pc={showBA p.precommits} " ++
  s!"lcr={p.lastCommitRound} lc={showBA p.lastCommit} ccr={p.catchupRound} cc={showBA p.catchup}"

/-- the harness node: height 1, four validators, no last commit -/
def nodeHeight : Int := 1
def nodeLastCommitSize : Int := 0

/-- the peer-state transition of an ACCEPTED consensus message (`none` = the handler panics,
`some none` = ill-formed op line) -/
def applyMsg (nodeValSize : Int) (p : PeerState.PRS) (kind : String) (toks : List String) : Option (Option PeerState.PRS) := do
  let int (k : String) : Option Int := (kv toks k).bind String.toInt?
  match kind with
  | "newroundstep" =>
    let m : PeerMsgs.NewRoundStep :=
      { height := ← int "h", round := ← int "r", step := ← (← kv toks "s").toNat?, lastCommitRound := ← int "lcr" }
    pure (some (PeerState.applyNewRoundStep p m))
  | "newvalidblock" =>
    let m : PeerMsgs.NewValidBlock :=
      { height := ← int "h", round := ← int "r", total := ← (← kv toks "total").toNat?,
        hashLen := ← (← kv toks "hashlen").toNat?, parts := ← parseBits toks }
    let c := ((kv toks "commit").bind parseBool).getD false
    pure (some (PeerState.applyNewValidBlock p m c))
  | "proposalpol" =>
    let m : PeerMsgs.ProposalPOL := { height := ← int "h", polRound := ← int "polr", pol := ← parseBits toks }
    pure (some (PeerState.applyProposalPOL p m))
  | "hasvote" =>
    let m : PeerMsgs.HasVote := { height := ← int "h", round := ← int "r", type := ← int "t", index := ← int "idx" }
    pure (PeerState.applyHasVote p m)
  | "votesetbits" =>
    let m : PeerMsgs.VoteSetBits :=
      { height := ← int "h", round := ← int "r", typeOk := ← parseBool (← kv toks "tok"),
        blockIdOk := ← parseBool (← kv toks "bidok"), votes := ← parseBits toks }
    -- whatever the node found for the block id (nil, or an array of its validator count)
    let t := (int "t").getD 1
    match PeerState.applyVoteSetBits p m t none, PeerState.applyVoteSetBits p m t (PeerMsgs.newBitArray nodeValSize) with
    | some a, some _ => pure (some a)
    | _, _ => pure none
  | "opaque-proposal" =>
    pure (some (PeerState.setHasProposal p (← int "h") (← int "r") (← int "polr") (← (← kv toks "total").toNat?)))
  | "opaque-blockpart" =>
    pure (PeerState.setHasProposalBlockPart p (← int "h") (← int "r") (← int "idx"))
  | "opaque-vote" =>
    pure (PeerState.receiveVote p nodeHeight nodeValSize nodeLastCommitSize (← int "vh") (← int "vr") (← int "vt") (← int "vidx"))
  | _ => pure (some p)       -- vote-set-maj23, garbage: the peer state is not touched

/-- the harness's emulation of the gossip routines' calls -/
def gossipModel (nodeValSize : Int) (p : PeerState.PRS) (what : String) : Option PeerState.PRS :=
  match what with
  | "part" =>
    let total : Int := p.pbpTotal
    if total ≤ 0 ∨ total > 2000 then some p
    else
      -- any index of the node's (full) part set may be picked
      if (List.range total.toNat).all fun i => (PeerState.gossipPart p total (some (i : Int))).isSome
      then some p else none
  | "vote" =>
    let rounds := [p.round, p.polRound].filter (0 ≤ ·)
    rounds.foldl (fun acc r =>
      [1, 2].foldl (fun (acc : Option PeerState.PRS) (t : Int) =>
        acc.bind fun q =>
          let v : PeerState.OurVotes := { height := p.height, round := r, type := t, size := nodeValSize, isCommit := t == 2 }
          if (List.range nodeValSize.toNat).all fun i => (PeerState.pickSendVote q v (some (i : Int))).isSome
          then PeerState.pickSendVote q v (some 0) else none) acc) (some p)
  | _ => some p


/-- verdicts of the other reactors' modelled message kinds; the second component is the new pex
request marker -/
def showDecision : ReactorMsgs.Decision → String
  | .accept => "ok" | .ignore => "ok" | .stop => "stopped" | .recovered => "recovered-panic"

def parseDecoded (toks : List String) : Option ReactorMsgs.Decoded :=
  match kv toks "dec" with
  | some "bad" => some .bad
  | some "nosum" => some .nosum
  | some "msg" => some .msg
  | none => some .msg
  | _ => none

def parseEvItems (s : String) : Option (List ReactorMsgs.EvItem) :=
  (splitComma s).mapM fun t =>
    match t with
    | "c" => some .convErr | "v" => some .vbErr | "i" => some .addInvalid
    | "o" => some .addOther | "k" => some .addOk | _ => none

def otherVerdict (kind : String) (toks : List String) (pexMarker : Nat) (pexSeed : Bool) : Option (String × Nat) := do
  let int (k : String) : Option Int := (kv toks k).bind String.toInt?
  let nat (k : String) : Option Nat := (kv toks k).bind String.toNat?
  let dec ← parseDecoded toks
  match kind with
  | "garbage" => pure (showDecision (ReactorMsgs.decodeGate dec .accept), pexMarker)
  | "ev-list" =>
    pure (showDecision (ReactorMsgs.decodeGate dec (ReactorMsgs.evidenceDecide (← parseEvItems (← kv toks "items")))), pexMarker)
  | "mp-txs" =>
    pure (showDecision (ReactorMsgs.mempoolDecide (List.replicate (← nat "n") .checked)), pexMarker)
  | "bc-blockresponse" =>
    pure (showDecision (ReactorMsgs.blockResponseDecide (← parseBool (← kv toks "converts"))), pexMarker)
  | "bc-blockrequest" => pure (verdict (ReactorMsgs.BcMsg.blockRequest (← int "h")).valid, pexMarker)
  | "bc-noblockresponse" => pure (verdict (ReactorMsgs.BcMsg.noBlockResponse (← int "h")).valid, pexMarker)
  | "bc-statusresponse" => pure (verdict (ReactorMsgs.BcMsg.statusResponse (← int "base") (← int "h")).valid, pexMarker)
  | "bc-statusrequest" => pure ("ok", pexMarker)
  | "ss-chunkrequest" => pure (verdict (ReactorMsgs.SsMsg.chunkRequest (← nat "h")).valid, pexMarker)
  | "ss-chunkresponse" =>
    pure (verdict (ReactorMsgs.SsMsg.chunkResponse (← nat "h") (← parseBool (← kv toks "missing")) (← nat "chunklen")).valid, pexMarker)
  | "ss-snapshotsrequest" => pure ("ok", pexMarker)
  | "ss-snapshotsresponse" =>
    pure (verdict (ReactorMsgs.SsMsg.snapshotsResponse (← nat "h") (← nat "hashlen") (← nat "chunks")).valid, pexMarker)
  | "pex-request" =>
    -- the harness's hostile peer is inbound; the node never asked it for addresses
    let (d, m) := ReactorMsgs.pexRequestDecide { seedMode := pexSeed, peerOutbound := false, marker := pexMarker, solicited := false }
    pure (showDecision d, m)
  | "pex-addrs" =>
    pure (showDecision (ReactorMsgs.pexAddrsDecide { seedMode := pexSeed, peerOutbound := false, marker := pexMarker, solicited := false }
      (← parseBool (← kv toks "wellformed")) true), pexMarker)
  | _ => none

/-- the stage at which the stream's hostile inbound peer misbehaves → the accept-path failure it
causes (`none` = an honest handshake) -/
def acceptStage (s : String) : Option (Option ReactorMsgs.AcceptFailure) :=
  match s with
  | "close-at-once" => some (some .secretConn)
  | "garbage-for-secretconn" => some (some .secretConn)
  | "close-after-secretconn" => some (some .nodeInfoExchange)
  | "ni-garbled" => some (some .nodeInfoExchange)
  | "ni-oversized" => some (some .nodeInfoExchange)
  | "ni-truncated" => some (some .nodeInfoExchange)
  | "ni-empty" => some (some .nodeInfoInvalid)
  | "ni-invalid" => some (some .nodeInfoInvalid)
  | "ni-wrong-id" => some (some .idMismatch)
  | "ni-incompatible" => some (some .incompatible)
  | "honest" => some none
  | _ => none

def step (st : St) (toks : List String) : St × String :=
  match toks with
  | "sconn" :: rest =>
    match (kv rest "chs").bind parseSDescs, (kv rest "max").bind String.toNat? with
    | some ds, some mx =>
      ({ st with snd := some (Sender.new mx ds), sched := ((kv rest "chs").bind parseSched).getD [] },
        s!"ok maxpkt={maxPacketMsgSize mx}")
    | _, _ => (st, "bad-op")
  | "send" :: rest =>
    match st.snd, (kv rest "ch").bind String.toNat?, (kv rest "data").bind ofHex with
    | some s, some ch, some d =>
      let (s', ok) := trySend s ch d
      ({ st with snd := some s' }, showBool ok)
    | _, _, _ => (st, "bad-op")
  | "sendpkt" :: rest =>
    match st.snd, kv rest "pick" with
    | some s, some pk =>
      let pick := if pk = "none" then some 256 else pk.toNat?
      match pick with
      | none => (st, "bad-op")
      | some p =>
        if pk ≠ "none" ∧ ¬ pickIsPending s p then (st, "bad-pick") else
        -- the real choice must be the model's least-ratio choice
        let pend := pendingIds s
        let least := (pickLeast (st.sched.filter fun c => pend.contains c.id)).map (·.id)
        if pk ≠ "none" ∧ least ≠ some p then (st, s!"pick-not-least model={least}") else
        let (s', o) := sendPacketMsg s p
        -- bytes written: uvarint length prefix + encoded packet
        let sched' := match o with
          | some q =>
            let sz := packetSize q.chId.toNat q.eof q.data.length
            creditSent st.sched q.chId.toNat (varintLen sz + sz)
          | none => st.sched
        ({ st with snd := some s', sched := sched' },
          (match o with
            | none => "none"
            | some q => s!"pkt ch={q.chId} eof={showBool q.eof} data={hexOrDash q.data}") ++ " qs=" ++ showQs s')
    | _, _ => (st, "bad-op")
  | "rconn" :: rest =>
    match (kv rest "chs").bind parseRDescs, (kv rest "max").bind String.toNat? with
    | some ds, some mx =>
      ({ st with rcv := some (Receiver.new mx ds) }, s!"ok maxpkt={maxPacketMsgSize mx}")
    | _, _ => (st, "bad-op")
  | "frame" :: rest =>
    match st.rcv, parsePacket rest, (kv rest "bytes").bind ofHex with
    | some r, some pkt, some bytes =>
      match recvRaw r bytes pkt with
      | none => (st, "bad-op")
      | some (r', o) => ({ st with rcv := some r' }, showOut o ++ " buf=" ++ showBufs r')
    | _, _, _ => (st, "bad-op")
  | "pconn" :: rest =>
    match (kv rest "chs").bind parsePDescs, (kv rest "max").bind String.toNat? with
    | some ds, some mx =>
      ({ st with pair := some { s := Sender.new mx ds, r := Receiver.new mx ds, ids := ds.map (·.id) } },
        s!"ok maxpkt={maxPacketMsgSize mx}")
    | _, _ => (st, "bad-op")
  | "psend" :: rest =>
    match st.pair, (kv rest "ch").bind String.toNat?, (kv rest "data").bind ofHex with
    | some p, some ch, some d =>
      let (p', ok) := pairSend ch d 1000000 p
      ({ st with pair := some p' }, showBool ok)
    | _, _, _ => (st, "bad-op")
  | ["psync"] =>
    match st.pair with
    | some p =>
      let p' := pairDrain 10000000 p
      ({ st with pair := some p' }, if p'.r.stopped.isSome then "err" else "synced")
    | none => (st, "bad-op")
  | ["pdrain"] =>
    match st.pair with
    | some p =>
      let p' := pairDrain 10000000 p
      let per := p'.ids.map fun id =>
        let ms := (p'.log.filter (·.1 = id)).map (·.2)
        s!"{id}=" ++ hexListStr ms
      ({ st with pair := some p' },
        ";".intercalate per ++ " err=" ++ (match p'.r.stopped with | some e => showErr e | none => "none"))
    | none => (st, "bad-op")
  | ["tnode"] => ({ st with tnode := true }, "ok")
  | ["snode"] => ({ st with snode := true }, "ok")
  | "tacc" :: rest =>
    match st.tnode, (kv rest "stage").bind acceptStage with
    | true, some none => (st, "accepted")
    | true, some (some f) =>
      (st, match ReactorMsgs.acceptErrOf f with
        | .rejected => "ErrRejected" | .filterTimeout => "ErrFilterTimeout"
        | .transportClosed => "ErrTransportClosed" | .other => "UNCLASSIFIED-ERROR")
    | _, _ => (st, "bad-op")
  | "sacc" :: rest =>
    match st.snode, (kv rest "stage").bind acceptStage with
    | true, some none => (st, "alive")
    | true, some (some f) =>
      (st, match ReactorMsgs.acceptRoutineOn (ReactorMsgs.acceptErrOf f) with
        | .continue => "alive" | .exit => "not-accepting" | .panic => "NODE-PROCESS-DIED")
    | _, _ => (st, "bad-op")
  | "pnet" :: rest =>
    match (kv rest "k").bind String.toNat?, kv rest "type" with
    | some k, some _ =>
      if k < 1 ∨ k > 8 then (st, "bad-op") else ({ st with pnetK := k }, s!"ok peers={k}")
    | _, _ => (st, "bad-op")
  | "pburst" :: rest =>
    match (kv rest "per").bind String.toNat? with
    | some per =>
      if st.pnetK = 0 ∨ per = 0 then (st, "bad-op") else
      -- whatever the interleaving of the peers' deliveries: per peer its own messages, in order
      let parts := (List.range st.pnetK).map fun i =>
        s!"{i}=" ++ ",".intercalate ((List.range per).map fun j => s!"p{i}-m{j}")
      (st, ";".intercalate parts ++ s!" peers={st.pnetK} sendfail=0")
    | none => (st, "bad-op")
  | "reactor" :: rest =>
    match kv rest "kind" with
    | some k =>
      if ["consensus", "mempool", "mempoolv1", "evidence", "blockchain", "blockchain-ho", "statesync", "pex", "pexseed"].contains k
      then
        let vs : Int := (((kv rest "vals").bind String.toInt?).filter (fun x => 0 < x)).getD 4
        ({ st with reactor := true, consensus := k == "consensus", prs := {}, pexMarker := 0, valSize := vs, pexSeed := k == "pexseed" }, "ok")
      else (st, "bad-op")
    | none => (st, "bad-op")
  | "rmsg" :: rest =>
    if ¬ st.reactor then (st, "bad-op") else
    match kv rest "kind", kv rest "expect" with
    | some k, some e =>
      if ¬ st.consensus then
        if k.startsWith "opaque" then (st, e) else
        match otherVerdict k rest st.pexMarker st.pexSeed with
        | some (v, m) => ({ st with pexMarker := m }, v)
        | none => (st, "bad-op")
      else
      let v? : Option String :=
        if ["newroundstep", "newvalidblock", "proposalpol", "hasvote", "votesetbits"].contains k
        then modelledVerdict k rest else some e
      match v? with
      | none => (st, "bad-op")
      | some v =>
        if v ≠ "ok" then (st, v ++ " " ++ showPRS st.prs)
        else
          match applyMsg st.valSize st.prs k rest with
          | none => (st, "bad-op")
          | some none => (st, "recovered-panic " ++ showPRS st.prs)
          | some (some p') => ({ st with prs := p' }, "ok " ++ showPRS p')
    | _, _ => (st, "bad-op")
  | "rflood" :: rest =>
    -- a running pool's consumer is alive: a buffered, guarded send never blocks forever
    if ¬ st.reactor then (st, "bad-op") else
    match (kv rest "rounds").bind String.toNat? with
    | some n =>
      let c : ReactorMsgs.BChan := { cap := 1000, len := 0, consumer := true }
      if (ReactorMsgs.chanSends true true (5 * n) c).contains .blockedForever then (st, "WEDGED-running-pool")
      else (st, "alive")
    | none => (st, "bad-op")
  | "hflood" :: rest =>
    if ¬ st.reactor then (st, "bad-op") else
    match (kv rest "n").bind String.toNat? with
    | some n =>
      -- every report the flood provokes goes through a guarded send (`chanSend true`): whether the
      -- service still runs (consumer alive) or not, none blocks forever
      let c : ReactorMsgs.BChan := { cap := 1000, len := 0, consumer := false }
      if (ReactorMsgs.chanSends true false n c).contains .blockedForever then (st, "WEDGED-handover-flood")
      else (st, "alive")
    | none => (st, "bad-op")
  | "flood" :: rest =>
    if ¬ st.reactor then (st, "bad-op") else
    match kv rest "expect", (kv rest "peers").bind String.toNat?, (kv rest "per").bind String.toNat? with
    | some _, some _, some _ => (st, "alive")     -- the property's verdict: a flood never wedges the node
    | _, _, _ => (st, "bad-op")
  | "gossip" :: rest =>
    if ¬ st.reactor then (st, "bad-op") else
    match kv rest "what" with
    | some w =>
      match gossipModel st.valSize st.prs w with
      | some p' => ({ st with prs := p' }, "ok " ++ showPRS p')
      | none => (st, "PANIC-outside-recover " ++ showPRS st.prs)
    | none => (st, "bad-op")
  | ["health"] => if st.reactor then (st, "healthy") else (st, "bad-op")
  | _ => (st, "bad-op")

def machine : Machine := { σ := St, init := {}, step := step }

end Tmv.Drv.C17

def main : IO Unit := Tmv.Drv.run Tmv.Drv.C17.machine
