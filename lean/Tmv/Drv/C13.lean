import Tmv.Drv.Core
import Tmv.Model.BlockSync
import Tmv.Model.BlockSyncV2
import Tmv.Model.BlockSyncV1
import Tmv.Model.BlockSyncV2Sched
/-! Line-protocol driver for C13 (block sync): runs `Tmv.BlockSync` on the op lines the Go stream
executes on the real blockchain/v0 reactor + pool. Signatures arrive as validity bits computed by
the harness from the real keys (`sigOK _ _ s := s = 1`); block ids as 32-bit prefixes of the real
hash / part-set-header hash. -/
namespace Tmv.Drv.C13
open Tmv Tmv.BlockSync

def sigOK : Nat → SignBytes → Nat → Bool := fun key _ s => s == key + 1

def hexNat (s : String) : Option Nat :=
  if s.isEmpty then none else
  s.toList.foldl (fun acc c => do
    let a ← acc
    let d ← hexVal c
    pure (a * 16 + d)) (some 0)

def natHex (n : Nat) : String := String.ofList (Nat.toDigits 16 n)

def parseId (s : String) : Option BlockId :=
  match s.splitOn "/" with
  | [a, b] => do pure ⟨← hexNat a, ← hexNat b⟩
  | _ => none

def showId (b : BlockId) : String := natHex b.hash ++ "/" ++ natHex b.psh

def parseSig (t : String) : Option CSig :=
  if t = "a" then some ⟨.absent, 0, 0, 0⟩ else
  match t.toList with
  | f :: rest =>
    match (String.ofList rest).splitOn "." with
    | [a, g] => do
      let fl ← (if f = 'c' then some Flag.commit else if f = 'n' then some Flag.nil else none)
      let ad ← (if a = "f" then some 999 else a.toNat?.map (· + 1))
      let sg ← (if g = "x" then some 0 else g.toNat?.map (· + 1))
      pure ⟨fl, ad, 0, sg⟩
    | _ => none
  | [] => none

def parseSigs (s : String) : Option (List CSig) := (splitComma s).mapM parseSig

def showSig (s : CSig) : String :=
  match s.flag with
  | .absent => "a"
  | f => (if f = .commit then "c" else "n") ++ (if s.addr = 999 then "f" else toString (s.addr - 1)) ++
      "." ++ (if s.sig = 0 then "x" else toString (s.sig - 1))

def showSigs (l : List CSig) : String :=
  if l.isEmpty then "-" else ",".intercalate (l.map showSig)

/-- `power:key,…` in validator-set order -/
def parseVals (s : String) : Option (List Val) :=
  (splitComma s).mapM fun t =>
    match t.splitOn ":" with
    | [p, k] => do
      let pw ← p.toNat?
      let key ← k.toNat?
      if pw = 0 then none else pure ⟨key + 1, key, pw⟩
    | _ => none

/-- `h:r:hash/psh:sigs` -/
def parseCommit (s : String) : Option Commit :=
  match s.splitOn ":" with
  | [h, r, id, sg] => do
    pure ⟨← h.toInt?, ← r.toInt?, ← parseId id, ← parseSigs sg⟩
  | _ => none

def parseBlock (toks : List String) : Option Block := do
  let h ← (← kv toks "h").toInt?
  let id ← parseId (← kv toks "id")
  let prev ← parseId (← kv toks "prev")
  let flaw ← (← kv toks "flaw").toNat?
  let lc ← parseCommit (← kv toks "lc")
  let _ ← kv toks "d"
  let nvs ← kv toks "nv"
  let nv ← (if nvs = "-" then some none else (parseVals nvs).map some)
  let mal ← (← kv toks "mal").toNat?
  pure ⟨h, id, prev, lc, flaw ≠ 0, nv, mal ≠ 0⟩

def showV : VErr → String
  | .size => "size" | .height => "height" | .blockId => "blockid"
  | .wrongSig i => s!"sig{i}" | .notEnough => "power"

def showP : PErr → String
  | .verify e => showV e
  | .validate .height => "v-height"
  | .validate .lastBlockId => "v-lastblockid"
  | .validate .flaw => "v-flaw"
  | .validate .initialCommit => "v-initialcommit"
  | .validate (.lastCommit e) => showV e

def natList (l : List Nat) : String :=
  if l.isEmpty then "-" else ",".intercalate (l.map toString)

def sortNat (l : List Nat) : List Nat := (l.toArray.qsort (· < ·)).toList

def optNat : Option Nat → String
  | some n => toString n
  | none => "-"

def showReqs (p : Pool) : String :=
  if p.requesters.isEmpty then "-" else
  ",".intercalate ((List.range p.requesters.length |>.zip p.requesters).map fun (i, r) =>
    s!"{p.height + i}:{optNat r.peer}:" ++ (match r.block with | some b => showId b.id | none => "-"))

def showPeers (p : Pool) : String :=
  let ps := (p.peers.toArray.qsort (fun a b => a.id < b.id)).toList
  if ps.isEmpty then "-" else
  ",".intercalate (ps.map fun q => s!"{q.id}:{q.base}:{q.height}:{q.numPending}")


def showStoreOf (st : St) (store : List (Block × Commit)) : String :=
  let es := store.reverse
  s!"state={st.lastHeight}:{showId st.lastId} blocks=" ++
    (if es.isEmpty then "-" else
      ";".intercalate (es.map fun (b, c) => s!"{b.height}:{showId b.id}:{showId c.blockId}:{showSigs c.sigs}"))

def showHandover : Handover → String
  | .notCaughtUp => "not-caught-up" | .ok => "ok" | .panicNoSeen => "panic-noseen"
  | .panicIndex => "panic-index" | .panicAddr => "panic-addr" | .panicSig => "panic-sig"
  | .panicNoMaj => "panic-nomaj"

/-- does the seen commit stored for the state's last block carry valid for-block signatures of
more than 2/3 of `LastValidators`? (printed next to a hand-over panic) -/
def tipQuorum (n : Node) : Bool :=
  match n.store.find? (fun e => e.1.height = n.st.lastHeight) with
  | none => false
  | some (_, c) =>
    let vs := n.st.lastVals
    let got : Int := ((vs.zip c.sigs).map fun (v, sg) =>
      if sg.flag = .commit && sigOK v.key (signBytes c sg) sg.sig then (v.power : Int) else 0).sum
    c.sigs.length = vs.length && decide (3 * got > 2 * totalPower vs)

/-- is every non-absent entry of that seen commit a verifying signature with the address of the
validator at its index (of `LastValidators`)? -/
def tipClean (n : Node) : Bool :=
  match n.store.find? (fun e => e.1.height = n.st.lastHeight) with
  | none => false
  | some (_, c) =>
    let vs := n.st.lastVals
    c.sigs.length = vs.length &&
      (vs.zip c.sigs).all fun (v, sg) =>
        sg.flag = .absent || (sg.addr = v.addr && sigOK v.key (signBytes c sg) sg.sig)

def showPanic (n : Node) (h : Handover) : String :=
  match h with
  | .notCaughtUp | .ok => showHandover h
  | _ => showHandover h ++ s!" tipq={tipQuorum n} tipclean={tipClean n}"

def getNat (toks : List String) (k : String) : Option Nat := (kv toks k).bind String.toNat?
def getInt (toks : List String) (k : String) : Option Int := (kv toks k).bind String.toInt?

def stepNode (n : Node) (toks : List String) : Node × String :=
  match toks with
  | "connect" :: rest =>
    match getNat rest "p" with
    | some id => n.connect id
    | none => (n, "bad-op")
  | "disconnect" :: rest =>
    match getNat rest "p" with
    | some id => n.disconnect id
    | none => (n, "bad-op")
  | "status" :: rest =>
    match getNat rest "p", getInt rest "base", getInt rest "height" with
    | some id, some b, some h => n.recvStatus id b h
    | _, _, _ => (n, "bad-op")
  | ["mkreq"] =>
    let p := n.pool.routineStep
    ({ n with pool := p }, s!"reqs={p.requesters.length}")
  | "pick" :: rest =>
    match getInt rest "h", getNat rest "p" with
    | some h, some id =>
      let (p, r) := n.pool.pick h id
      ({ n with pool := p }, match r with
        | .picked => "picked" | .ineligible => "ineligible" | .none => "none"
        | .busy => "busy" | .noreq => "noreq")
    | _, _ => (n, "bad-op")
  | "block" :: rest =>
    match getNat rest "p", parseBlock rest with
    | some id, some b => n.recvBlock id b
    | _, _ => (n, "bad-op")
  | "rstep" :: rest =>
    match getInt rest "h" with
    | some h => let (p, r) := n.pool.rstep h; ({ n with pool := p }, r)
    | none => (n, "bad-op")
  | "rtimeout" :: rest =>
    match getInt rest "h" with
    | some h => let (p, r) := n.pool.rtimeout h; ({ n with pool := p }, r)
    | none => (n, "bad-op")
  | "timeout" :: rest =>
    match getNat rest "p" with
    | some id => if (n.pool.peer? id).isSome then (n.peerTimeout id, "ok") else (n, "nopeer")
    | none => (n, "bad-op")
  | ["process"] =>
    let before := n.stopped.length
    let (n', k, r) := Node.processAll sigOK 1000 n 0
    let newly := sortNat (n'.stopped.take (n'.stopped.length - before))
    (n', s!"saved={k} err=" ++ (match r with
      | .failed e _ _ => showP e
      | _ => "-") ++ " pair=" ++ (match r with
      | .failed _ p1 p2 => optNat p1 ++ "/" ++ optNat p2
      | _ => "-/-") ++ s!" stopped={natList newly} h={n'.pool.height}")
  | ["peek"] =>
    let (a, b) := n.pool.peekTwo
    let f := fun (o : Option Block) => match o with | some x => showId x.id | none => "-"
    (n, s!"first={f a} second={f b}")
  | ["show"] =>
    (n, s!"h={n.pool.height} pending={n.pool.numPending} reqs={showReqs n.pool} " ++
      s!"max={n.pool.maxPeerHeight} caught={n.pool.isCaughtUp} peers={showPeers n.pool} " ++
      s!"conn={natList (sortNat n.connected)}")
  | ["store"] => (n, showStoreOf n.st n.store)
  | ["handover"] => (n, showPanic n (n.handover sigOK))
  | ["restart"] =>
    let (n', r) := n.restart sigOK
    (n', if r = .ok then s!"ok h={n'.pool.height}" else showPanic n r)
  | _ => (n, "bad-op")

def showV2Out : V2.Out → String
  | .noOp => "noop"
  | .finished k => s!"finished synced={k}"
  | .failure h p1 p2 => s!"failure h={h} p1={p1} p2={p2}"
  | .processed h p => s!"processed h={h} p={p}"
  | .panicDup => "panic-dup"
  | .panicApply => "panic-apply"

/-- ops of the blockchain/v2 processor stream -/
def stepV2 (p : V2.Pc) (toks : List String) : V2.Pc × String :=
  let ev (e : V2.Ev) : V2.Pc × String :=
    if p.dead then (p, "dead") else
    let (p', o) := p.handle sigOK e
    (p', showV2Out o)
  match toks with
  | "v2block" :: rest =>
    match getNat rest "p", parseBlock rest with
    | some id, some b =>
      if b.malformed then (p, "bad-op")
      else if !b.lastCommit.basicOK then (p, "rejected")   -- never reaches the processor
      else ev (.blockReceived id (some b))
    | _, _ => (p, "bad-op")
  | "v2nil" :: rest =>
    match getNat rest "p" with
    | some id => ev (.blockReceived id none)
    | none => (p, "bad-op")
  | "v2peererr" :: rest =>
    match getNat rest "p" with
    | some id => ev (.peerError id)
    | none => (p, "bad-op")
  | ["v2finished"] => ev .scFinished
  | ["v2process"] => ev .processBlock
  | ["v2store"] => (p, showStoreOf p.st p.store)
  | ["v2show"] => (p, s!"q={p.queue.length} draining={p.draining} synced={p.blocksSynced} dead={p.dead}")
  | _ => (p, "bad-op")

/-! ### blockchain/v1 FSM stream -/

def showFState : V1.FState → String
  | .unknown => "unknown" | .waitForPeer => "waitForPeer" | .waitForBlock => "waitForBlock"
  | .finished => "finished"

def parseFState (s : String) : Option V1.FState :=
  if s = "unknown" then some .unknown else if s = "waitForPeer" then some .waitForPeer
  else if s = "waitForBlock" then some .waitForBlock else if s = "finished" then some .finished else none

def showV1Err : V1.Err → String
  | .none => "none" | .finished => "finished" | .invalid => "invalid" | .tooShort => "tooshort"
  | .lowers => "lowers" | .badData => "baddata" | .missing => "missing" | .duplicate => "duplicate"
  | .timeoutWrong => "timeoutwrong" | .noTaller => "notaller" | .noResponseCurrent => "noresponse"
  | .verification => "verification"

def sortInts (l : List Int) : List Int := (l.toArray.qsort (· < ·)).toList

def intList (l : List Int) : String := if l.isEmpty then "-" else ",".intercalate (l.map toString)

def showV1 (n : V1.Node) : String :=
  let p := n.fsm.pool
  let blocks := (p.blocks.toArray.qsort (fun a b => a.1 < b.1)).toList
  let peers := (p.peers.toArray.qsort (fun a b => a.id < b.id)).toList
  let showPeer (q : V1.Peer) : String :=
    let bs := (q.blocks.toArray.qsort (fun a b => a.1 < b.1)).toList
    s!"{q.id}:{q.base}:{q.height}:{q.numPending}:" ++
      (if bs.isEmpty then "." else "/".intercalate (bs.map fun e => s!"{e.1}" ++ (if e.2.isSome then "+" else "-")))
  s!"st={showFState n.fsm.state} h={p.height} max={p.maxPeerHeight} next={p.nextRequestHeight} " ++
    s!"planned={intList (sortInts p.planned)} blocks=" ++
    (if blocks.isEmpty then "-" else ",".intercalate (blocks.map fun e => s!"{e.1}:{e.2}")) ++
    " peers=" ++ (if peers.isEmpty then "-" else ",".intercalate (peers.map showPeer)) ++
    s!" errs={natList n.fsm.peerErrors.reverse} sw={n.fsm.switched} dead={n.fsm.dead}"

/-- `h:p,h:p` -/
def parseTries (s : String) : Option (List (Int × Nat)) :=
  (splitComma s).mapM fun t =>
    match t.splitOn ":" with
    | [h, q] => do pure (← h.toInt?, ← q.toNat?)
    | _ => none

def stepV1 (n : V1.Node) (toks : List String) : V1.Node × String :=
  let ev (e : V1.Ev) : V1.Node × String :=
    if n.fsm.dead then (n, "dead") else
    let (n', err) := n.event e
    if n'.fsm.dead then (n', "panic") else (n', s!"{showFState n'.fsm.state} err={showV1Err err}")
  match toks with
  | ["v1start"] => ev .start
  | ["v1stop"] => ev .stop
  | "v1status" :: rest =>
    match getNat rest "p", getInt rest "base", getInt rest "height" with
    | some id, some b, some h => ev (.statusResponse id b h)
    | _, _, _ => (n, "bad-op")
  | "v1block" :: rest =>
    match getNat rest "p", parseBlock rest with
    | some id, some b =>
      if b.malformed then (n, "bad-op")
      else if !b.lastCommit.basicOK then (n, "rejected")
      else ev (.blockResponse id b)
    | _, _ => (n, "bad-op")
  | "v1noblock" :: rest =>
    match getNat rest "p" with
    | some id => ev (.noBlockResponse id)
    | none => (n, "bad-op")
  | "v1processed" :: rest =>
    match getNat rest "failed" with
    | some f => ev (.processedBlock (f ≠ 0))
    | none => (n, "bad-op")
  | "v1remove" :: rest =>
    match getNat rest "p" with
    | some id => ev (.peerRemove id)
    | none => (n, "bad-op")
  | "v1timeout" :: rest =>
    match (kv rest "name").bind parseFState with
    | some st => ev (.stateTimeout st)
    | none => (n, "bad-op")
  | "v1mkreq" :: rest =>
    match getNat rest "max", (kv rest "tries").bind parseTries, getNat rest "def" with
    | some m, some tr, some d =>
      ev (.makeRequests m fun h => match tr.find? (·.1 = h) with | some e => e.2 | none => d)
    | _, _, _ => (n, "bad-op")
  | ["v1process"] =>
    let (n', r) := n.processOnce sigOK
    (n', match r with
      | .missing => "missing" | .verificationFailure => "verification-failure"
      | .processed => "processed" | .panicApply => "panic-apply" | .dead => "dead")
  | ["v1show"] => (n, showV1 n)
  | ["v1store"] => (n, showStoreOf n.st n.store)
  | _ => (n, "bad-op")

/-! ### blockchain/v2 scheduler stream -/

def showScOut : V2S.Out → String
  | .noOp => "noop" | .peerError p => s!"peer-error p={p}"
  | .blockReceived p h => s!"block-received p={p} h={h}" | .finished => "finished"
  | .blockRequest p h => s!"block-request p={p} h={h}" | .fail => "fail"
  | .pruned ps => "pruned " ++ " ".intercalate (ps.map toString) | .panicHeight => "panic"

def showSched (s : V2S.Sched) : String :=
  let peers := (s.peers.toArray.qsort (fun a b => a.id < b.id)).toList
  let st := (s.blockStates.toArray.qsort (fun a b => a.1 < b.1)).toList
  let pe := (s.pending.toArray.qsort (fun a b => a.1 < b.1)).toList
  let re := (s.received.toArray.qsort (fun a b => a.1 < b.1)).toList
  let ps : V2S.PState → String := fun x => match x with | .new => "New" | .ready => "Ready" | .removed => "Removed"
  let bs : V2S.BState → String := fun x => match x with | .new => "New" | .pending => "Pending" | .received => "Received"
  let j (l : List String) : String := if l.isEmpty then "-" else ",".intercalate l
  s!"h={s.height} peers={j (peers.map fun q => s!"{q.id}:{ps q.state}:{q.base}:{q.height}")} " ++
    s!"states={j (st.map fun e => s!"{e.1}:{bs e.2}")} pending={j (pe.map fun e => s!"{e.1}:{e.2.1}")} " ++
    s!"received={j (re.map fun e => s!"{e.1}:{e.2}")}"

def stepSc (s : V2S.Sched × Bool) (toks : List String) : (V2S.Sched × Bool) × String :=
  let ev (e : V2S.Ev) : (V2S.Sched × Bool) × String :=
    if s.2 then (s, "dead") else
    let (s', o) := s.1.handle e
    ((s', o = .panicHeight), showScOut o)
  match toks with
  | "scstatus" :: rest =>
    match getNat rest "p", getInt rest "base", getInt rest "height" with
    | some id, some b, some h => ev (.statusResponse id b h)
    | _, _, _ => (s, "bad-op")
  | "scblock" :: rest =>
    match getNat rest "p", getInt rest "h", getInt rest "t" with
    | some id, some h, some t => ev (.blockResponse id h t)
    | _, _, _ => (s, "bad-op")
  | "scnoblock" :: rest =>
    match getNat rest "p" with | some id => ev (.noBlockResponse id) | none => (s, "bad-op")
  | "scsched" :: rest =>
    match getInt rest "t" with | some t => ev (.trySchedule t) | none => (s, "bad-op")
  | "scadd" :: rest =>
    match getNat rest "p" with | some id => ev (.addNewPeer id) | none => (s, "bad-op")
  | "scremove" :: rest =>
    match getNat rest "p" with | some id => ev (.removePeer id) | none => (s, "bad-op")
  | "scprune" :: rest =>
    match getInt rest "t" with | some t => ev (.tryPrune t) | none => (s, "bad-op")
  | "scprocessed" :: rest =>
    match getInt rest "h" with | some h => ev (.blockProcessed h) | none => (s, "bad-op")
  | "scerror" :: rest =>
    match getNat rest "p1", getNat rest "p2" with
    | some a, some b => ev (.processError a b)
    | _, _ => (s, "bad-op")
  | ["scshow"] => (s, showSched s.1)
  | _ => (s, "bad-op")

structure S where
  sc : Option (V2S.Sched × Bool) := none
  v0 : Option Node := none
  v2 : Option V2.Pc := none
  v1 : Option V1.Node := none

def parseInit (rest : List String) : Option St :=
  match (kv rest "vals").bind parseVals, (kv rest "ih").bind String.toNat? with
  | some vals, some ih =>
    if vals.isEmpty || ih = 0 then none else some ⟨ih, 0, BlockId.zero, vals, vals, []⟩
  | _, _ => none

def step (s : S) (toks : List String) : S × String :=
  match toks with
  | "init" :: rest =>
    match parseInit rest with
    | some st =>
      let n := Node.new st
      ({ s with v0 := some n }, s!"ok h={n.pool.height}")
    | none => (s, "bad-op")
  | "v2init" :: rest =>
    match parseInit rest with
    | some st => ({ s with v2 := some (V2.Pc.new st) }, s!"ok h={st.lastHeight}")
    | none => (s, "bad-op")
  | "scinit" :: rest =>
    match getInt rest "h" with
    | some h => ({ s with sc := some (V2S.Sched.new h, false) }, "ok")
    | none => (s, "bad-op")
  | "v1init" :: rest =>
    match parseInit rest with
    | some st =>
      let n := V1.Node.new st
      ({ s with v1 := some n }, s!"ok h={n.fsm.pool.height}")
    | none => (s, "bad-op")
  | t :: _ =>
    if t.startsWith "sc" then
      match s.sc with
      | some x => let (x', o) := stepSc x toks; ({ s with sc := some x' }, o)
      | none => (s, "bad-op")
    else if t.startsWith "v1" then
      match s.v1 with
      | some n => let (n', o) := stepV1 n toks; ({ s with v1 := some n' }, o)
      | none => (s, "bad-op")
    else if t.startsWith "v2" then
      match s.v2 with
      | some p => let (p', o) := stepV2 p toks; ({ s with v2 := some p' }, o)
      | none => (s, "bad-op")
    else
      match s.v0 with
      | some n => let (n', o) := stepNode n toks; ({ s with v0 := some n' }, o)
      | none => (s, "bad-op")
  | [] => (s, "bad-op")

def machine : Machine := { σ := S, init := {}, step := step }

end Tmv.Drv.C13

def main : IO Unit := Tmv.Drv.run Tmv.Drv.C13.machine
