import Tmv.Drv.Core
import Tmv.Model.BlockSync
import Tmv.Model.BlockSyncV2
/-! Line-protocol driver for C13 (block sync): runs `Tmv.BlockSync` on the op lines the Go stream
executes on the real blockchain/v0 reactor + pool. Signatures arrive as validity bits computed by
the harness from the real keys (`sigOK _ _ s := s = 1`); block ids as 32-bit prefixes of the real
hash / part-set-header hash. -/
namespace Tmv.Drv.C13
open Tmv Tmv.BlockSync

def sigOK : Nat → SignBytes → Nat → Bool := fun key _ s => s == key + 1

def hexNat (s : String) : Option Nat :=
  if s.isEmpty then none else
  s.toList.foldl (fun acc c => do
    let a ← acc
    let d ← hexVal c
    pure (a * 16 + d)) (some 0)

def natHex (n : Nat) : String := String.ofList (Nat.toDigits 16 n)

def parseId (s : String) : Option BlockId :=
  match s.splitOn "/" with
  | [a, b] => do pure ⟨← hexNat a, ← hexNat b⟩
  | _ => none

def showId (b : BlockId) : String := natHex b.hash ++ "/" ++ natHex b.psh

def parseSig (t : String) : Option CSig :=
  if t = "a" then some ⟨.absent, 0, 0, 0⟩ else
  match t.toList with
  | f :: rest =>
    match (String.ofList rest).splitOn "." with
    | [a, g] => do
      let fl ← (if f = 'c' then some Flag.commit else if f = 'n' then some Flag.nil else none)
      let ad ← (if a = "f" then some 999 else a.toNat?.map (· + 1))
      let sg ← (if g = "x" then some 0 else g.toNat?.map (· + 1))
      pure ⟨fl, ad, 0, sg⟩
    | _ => none
  | [] => none

def parseSigs (s : String) : Option (List CSig) := (splitComma s).mapM parseSig

def showSig (s : CSig) : String :=
  match s.flag with
  | .absent => "a"
  | f => (if f = .commit then "c" else "n") ++ (if s.addr = 999 then "f" else toString (s.addr - 1)) ++
      "." ++ (if s.sig = 0 then "x" else toString (s.sig - 1))

def showSigs (l : List CSig) : String :=
  if l.isEmpty then "-" else ",".intercalate (l.map showSig)

/-- `power:key,…` in validator-set order -/
def parseVals (s : String) : Option (List Val) :=
  (splitComma s).mapM fun t =>
    match t.splitOn ":" with
    | [p, k] => do
      let pw ← p.toNat?
      let key ← k.toNat?
      if pw = 0 then none else pure ⟨key + 1, key, pw⟩
    | _ => none

/-- `h:r:hash/psh:sigs` -/
def parseCommit (s : String) : Option Commit :=
  match s.splitOn ":" with
  | [h, r, id, sg] => do
    pure ⟨← h.toInt?, ← r.toInt?, ← parseId id, ← parseSigs sg⟩
  | _ => none

def parseBlock (toks : List String) : Option Block := do
  let h ← (← kv toks "h").toInt?
  let id ← parseId (← kv toks "id")
  let prev ← parseId (← kv toks "prev")
  let flaw ← (← kv toks "flaw").toNat?
  let lc ← parseCommit (← kv toks "lc")
  let _ ← kv toks "d"
  let nvs ← kv toks "nv"
  let nv ← (if nvs = "-" then some none else (parseVals nvs).map some)
  let mal ← (← kv toks "mal").toNat?
  pure ⟨h, id, prev, lc, flaw ≠ 0, nv, mal ≠ 0⟩

def showV : VErr → String
  | .size => "size" | .height => "height" | .blockId => "blockid"
  | .wrongSig i => s!"sig{i}" | .notEnough => "power"

def showP : PErr → String
  | .verify e => showV e
  | .validate .height => "v-height"
  | .validate .lastBlockId => "v-lastblockid"
  | .validate .flaw => "v-flaw"
  | .validate .initialCommit => "v-initialcommit"
  | .validate (.lastCommit e) => showV e

def natList (l : List Nat) : String :=
  if l.isEmpty then "-" else ",".intercalate (l.map toString)

def sortNat (l : List Nat) : List Nat := (l.toArray.qsort (· < ·)).toList

def optNat : Option Nat → String
  | some n => toString n
  | none => "-"

def showReqs (p : Pool) : String :=
  if p.requesters.isEmpty then "-" else
  ",".intercalate ((List.range p.requesters.length |>.zip p.requesters).map fun (i, r) =>
    s!"{p.height + i}:{optNat r.peer}:" ++ (match r.block with | some b => showId b.id | none => "-"))

def showPeers (p : Pool) : String :=
  let ps := (p.peers.toArray.qsort (fun a b => a.id < b.id)).toList
  if ps.isEmpty then "-" else
  ",".intercalate (ps.map fun q => s!"{q.id}:{q.base}:{q.height}:{q.numPending}")


def showStoreOf (st : St) (store : List (Block × Commit)) : String :=
  let es := store.reverse
  s!"state={st.lastHeight}:{showId st.lastId} blocks=" ++
    (if es.isEmpty then "-" else
      ";".intercalate (es.map fun (b, c) => s!"{b.height}:{showId b.id}:{showId c.blockId}:{showSigs c.sigs}"))

def showHandover : Handover → String
  | .notCaughtUp => "not-caught-up" | .ok => "ok" | .panicNoSeen => "panic-noseen"
  | .panicIndex => "panic-index" | .panicAddr => "panic-addr" | .panicSig => "panic-sig"
  | .panicNoMaj => "panic-nomaj"

/-- does the seen commit stored for the state's last block carry valid for-block signatures of
more than 2/3 of `LastValidators`? (printed next to a hand-over panic) -/
def tipQuorum (n : Node) : Bool :=
  match n.store.find? (fun e => e.1.height = n.st.lastHeight) with
  | none => false
  | some (_, c) =>
    let vs := n.st.lastVals
    let got : Int := ((vs.zip c.sigs).map fun (v, sg) =>
      if sg.flag = .commit && sigOK v.key (signBytes c sg) sg.sig then (v.power : Int) else 0).sum
    c.sigs.length = vs.length && decide (3 * got > 2 * totalPower vs)

def showPanic (n : Node) (h : Handover) : String :=
  match h with
  | .notCaughtUp | .ok => showHandover h
  | _ => showHandover h ++ s!" tipq={tipQuorum n}"

def getNat (toks : List String) (k : String) : Option Nat := (kv toks k).bind String.toNat?
def getInt (toks : List String) (k : String) : Option Int := (kv toks k).bind String.toInt?

def stepNode (n : Node) (toks : List String) : Node × String :=
  match toks with
  | "connect" :: rest =>
    match getNat rest "p" with
    | some id => n.connect id
    | none => (n, "bad-op")
  | "disconnect" :: rest =>
    match getNat rest "p" with
    | some id => n.disconnect id
    | none => (n, "bad-op")
  | "status" :: rest =>
    match getNat rest "p", getInt rest "base", getInt rest "height" with
    | some id, some b, some h => n.recvStatus id b h
    | _, _, _ => (n, "bad-op")
  | ["mkreq"] =>
    let p := n.pool.routineStep
    ({ n with pool := p }, s!"reqs={p.requesters.length}")
  | "pick" :: rest =>
    match getInt rest "h", getNat rest "p" with
    | some h, some id =>
      let (p, r) := n.pool.pick h id
      ({ n with pool := p }, match r with
        | .picked => "picked" | .ineligible => "ineligible" | .none => "none"
        | .busy => "busy" | .noreq => "noreq")
    | _, _ => (n, "bad-op")
  | "block" :: rest =>
    match getNat rest "p", parseBlock rest with
    | some id, some b => n.recvBlock id b
    | _, _ => (n, "bad-op")
  | "rstep" :: rest =>
    match getInt rest "h" with
    | some h => let (p, r) := n.pool.rstep h; ({ n with pool := p }, r)
    | none => (n, "bad-op")
  | "rtimeout" :: rest =>
    match getInt rest "h" with
    | some h => let (p, r) := n.pool.rtimeout h; ({ n with pool := p }, r)
    | none => (n, "bad-op")
  | "timeout" :: rest =>
    match getNat rest "p" with
    | some id => if (n.pool.peer? id).isSome then (n.peerTimeout id, "ok") else (n, "nopeer")
    | none => (n, "bad-op")
  | ["process"] =>
    let before := n.stopped.length
    let (n', k, r) := Node.processAll sigOK 1000 n 0
    let newly := sortNat (n'.stopped.take (n'.stopped.length - before))
    (n', s!"saved={k} err=" ++ (match r with
      | .failed e _ _ => showP e
      | _ => "-") ++ " pair=" ++ (match r with
      | .failed _ p1 p2 => optNat p1 ++ "/" ++ optNat p2
      | _ => "-/-") ++ s!" stopped={natList newly} h={n'.pool.height}")
  | ["peek"] =>
    let (a, b) := n.pool.peekTwo
    let f := fun (o : Option Block) => match o with | some x => showId x.id | none => "-"
    (n, s!"first={f a} second={f b}")
  | ["show"] =>
    (n, s!"h={n.pool.height} pending={n.pool.numPending} reqs={showReqs n.pool} " ++
      s!"max={n.pool.maxPeerHeight} caught={n.pool.isCaughtUp} peers={showPeers n.pool} " ++
      s!"conn={natList (sortNat n.connected)}")
  | ["store"] => (n, showStoreOf n.st n.store)
  | ["handover"] => (n, showPanic n (n.handover sigOK))
  | ["restart"] =>
    let (n', r) := n.restart sigOK
    (n', if r = .ok then s!"ok h={n'.pool.height}" else showPanic n r)
  | _ => (n, "bad-op")

def showV2Out : V2.Out → String
  | .noOp => "noop"
  | .finished k => s!"finished synced={k}"
  | .failure h p1 p2 => s!"failure h={h} p1={p1} p2={p2}"
  | .processed h p => s!"processed h={h} p={p}"
  | .panicDup => "panic-dup"
  | .panicApply => "panic-apply"

/-- ops of the blockchain/v2 processor stream -/
def stepV2 (p : V2.Pc) (toks : List String) : V2.Pc × String :=
  let ev (e : V2.Ev) : V2.Pc × String :=
    if p.dead then (p, "dead") else
    let (p', o) := p.handle sigOK e
    (p', showV2Out o)
  match toks with
  | "v2block" :: rest =>
    match getNat rest "p", parseBlock rest with
    | some id, some b =>
      if b.malformed then (p, "bad-op")
      else if !b.lastCommit.basicOK then (p, "rejected")   -- never reaches the processor
      else ev (.blockReceived id (some b))
    | _, _ => (p, "bad-op")
  | "v2nil" :: rest =>
    match getNat rest "p" with
    | some id => ev (.blockReceived id none)
    | none => (p, "bad-op")
  | "v2peererr" :: rest =>
    match getNat rest "p" with
    | some id => ev (.peerError id)
    | none => (p, "bad-op")
  | ["v2finished"] => ev .scFinished
  | ["v2process"] => ev .processBlock
  | ["v2store"] => (p, showStoreOf p.st p.store)
  | ["v2show"] => (p, s!"q={p.queue.length} draining={p.draining} synced={p.blocksSynced} dead={p.dead}")
  | _ => (p, "bad-op")

structure S where
  v0 : Option Node := none
  v2 : Option V2.Pc := none

def parseInit (rest : List String) : Option St :=
  match (kv rest "vals").bind parseVals, (kv rest "ih").bind String.toNat? with
  | some vals, some ih =>
    if vals.isEmpty || ih = 0 then none else some ⟨ih, 0, BlockId.zero, vals, vals, []⟩
  | _, _ => none

def step (s : S) (toks : List String) : S × String :=
  match toks with
  | "init" :: rest =>
    match parseInit rest with
    | some st =>
      let n := Node.new st
      ({ s with v0 := some n }, s!"ok h={n.pool.height}")
    | none => (s, "bad-op")
  | "v2init" :: rest =>
    match parseInit rest with
    | some st => ({ s with v2 := some (V2.Pc.new st) }, s!"ok h={st.lastHeight}")
    | none => (s, "bad-op")
  | t :: _ =>
    if t.startsWith "v2" then
      match s.v2 with
      | some p => let (p', o) := stepV2 p toks; ({ s with v2 := some p' }, o)
      | none => (s, "bad-op")
    else
      match s.v0 with
      | some n => let (n', o) := stepNode n toks; ({ s with v0 := some n' }, o)
      | none => (s, "bad-op")
  | [] => (s, "bad-op")

def machine : Machine := { σ := S, init := {}, step := step }

end Tmv.Drv.C13

def main : IO Unit := Tmv.Drv.run Tmv.Drv.C13.machine
