import Tmv.Drv.Core
import Tmv.Sha256
import Tmv.Model.PartSet
import Tmv.Model.TxProof
namespace Tmv.Drv.C10
open Tmv Tmv.Merkle Tmv.PartSet

def Hs : Bytes → Bytes := Sha256.hash

def hexList (s : String) : Option (List Bytes) := (splitComma s).mapM ofHex

def showProof (p : Proof) : String :=
  s!"{p.index}/{p.total}/{hexOrDash p.leafHash}/" ++
    hexListStr p.aunts

def parseProof (toks : List String) : Option Proof := do
  let idx ← (← kv toks "pidx").toInt?
  let tot ← (← kv toks "ptotal").toInt?
  let lh ← ofHex (← kv toks "lh")
  let aunts ← hexList (← kv toks "aunts")
  pure { total := tot, index := idx, leafHash := lh, aunts := aunts }

def showVerify : Except VerifyErr Unit → String
  | .ok _ => "ok"
  | .error .total => "err-total"
  | .error .index => "err-index"
  | .error .leaf => "err-leaf"
  | .error .root => "err-root"

def step (ps : Option PartSet.PartSet) (toks : List String) : Option PartSet.PartSet × String :=
  match toks with
  | "root" :: rest =>
    match (kv rest "items").bind hexList with
    | some items => (ps, toHex (root Hs items))
    | none => (ps, "bad-op")
  | "proofs" :: rest =>
    match (kv rest "items").bind hexList with
    | some items =>
      (ps, toHex (root Hs items) ++ " " ++
        ";".intercalate ((List.range items.length).map fun i => showProof (proofOf Hs items i)))
    | none => (ps, "bad-op")
  | "verify" :: rest =>
    match (kv rest "root").bind ofHex, (kv rest "leaf").bind ofHex, parseProof rest with
    | some r, some leaf, some p => (ps, showVerify (verify Hs r leaf p))
    | _, _, _ => (ps, "bad-op")
  -- concurrent ops: the implementation runs k goroutines at once; every linearisation of these
  -- pure / mutex-protected operations gives the sequential answer computed here
  | "croots" :: rest =>
    match (kv rest "items").bind hexList, (kv rest "k").bind String.toNat? with
    | some items, some k =>
      (ps, ",".intercalate ((List.range k).map fun j => toHex (root Hs (items.rotateLeft j))))
    | _, _ => (ps, "bad-op")
  | "cverify" :: rest =>
    match (kv rest "root").bind ofHex, (kv rest "leaf").bind ofHex, parseProof rest,
          (kv rest "k").bind String.toNat? with
    | some r, some leaf, some p, some k =>
      (ps, ",".intercalate ((List.range k).map fun j =>
        let lf := match leaf.reverse with
          | [] => []
          | b :: t => ((b ^^^ UInt8.ofNat j) :: t).reverse
        showVerify (verify Hs r lf p)))
    | _, _, _, _ => (ps, "bad-op")
  | "cadd" :: rest =>
    match ps, (kv rest "idx").bind String.toNat?, (kv rest "bytes").bind ofHex, parseProof rest,
          (kv rest "k").bind String.toNat? with
    | some s, some idx, some b, some pr, some k =>
      let (s', rs) := (List.range k).foldl (fun (acc : PartSet.PartSet × List AddRes) _ =>
        let (s1, r) := addPart Hs acc.1 { index := idx, bytes := b, proof := pr }
        (s1, r :: acc.2)) (s, [])
      let cnt (x : AddRes) := (rs.filter (· == x)).length
      (some s', s!"added={cnt .added} dup={cnt .dup} err-index={cnt .errIndex} err-proof={cnt .errProof}")
    | _, _, _, _, _ => (ps, "bad-op")
  | "txhash" :: rest =>
    match (kv rest "txs").bind hexList with
    | some txs => (ps, toHex (TxProof.txsHash Hs txs))
    | none => (ps, "bad-op")
  | "txproof" :: rest =>
    match (kv rest "txs").bind hexList, (kv rest "i").bind String.toNat? with
    | some txs, some i =>
      if i < txs.length then
        let tp := TxProof.proofFor Hs txs i
        (ps, s!"{toHex tp.rootHash} {hexOrDash tp.data} {showProof tp.proof}")
      else (ps, "panic")
    | _, _ => (ps, "bad-op")
  | "txvalidate" :: rest =>
    match (kv rest "dh").bind ofHex, (kv rest "root").bind ofHex, (kv rest "data").bind ofHex, parseProof rest with
    | some dh, some r, some d, some p =>
      (ps, match TxProof.validate Hs dh { rootHash := r, data := d, proof := p } with
        | .ok _ => "ok"
        | .error .dataHash => "err-datahash"
        | .error .index => "err-index"
        | .error .total => "err-total"
        | .error .inconsistent => "err-inconsistent")
    | _, _, _, _ => (ps, "bad-op")
  | "new" :: rest =>
    match (kv rest "data").bind ofHex, (kv rest "psize").bind String.toNat? with
    | some d, some k =>
      if k = 0 then (ps, "bad-op") else
      let p := fromData Hs d k
      (some p, s!"hdr {p.total} {toHex p.hash} " ++
        ";".intercalate (p.parts.map fun o => match o with
          | some q => hexOrDash q.bytes ++ "/" ++ showProof q.proof
          | none => "?"))
    | _, _ => (ps, "bad-op")
  | "hdr" :: rest =>
    match (kv rest "total").bind String.toNat?, (kv rest "root").bind ofHex with
    | some t, some r => (some (fromHeader t r), "ok")
    | _, _ => (ps, "bad-op")
  | "add" :: rest =>
    match ps, (kv rest "idx").bind String.toNat?, (kv rest "bytes").bind ofHex, parseProof rest with
    | some s, some idx, some b, some pr =>
      let (s', r) := addPart Hs s { index := idx, bytes := b, proof := pr }
      (some s', match r with
        | .added => "added" | .dup => "dup" | .errIndex => "err-index" | .errProof => "err-proof")
    | _, _, _, _ => (ps, "bad-op")
  | "pvalidate" :: rest =>
    match (kv rest "bytes").bind ofHex, parseProof rest with
    | some b, some pr =>
      (ps, match partValidateBasic { index := 0, bytes := b, proof := pr } with
        | .ok _ => "ok"
        | .error .tooBig => "err-too-big"
        | .error _ => "err-proof")
    | _, _ => (ps, "bad-op")
  | "hasheader" :: rest =>
    match (kv rest "total").bind String.toNat?, (kv rest "root").bind ofHex with
    | some t, some r => (ps, toString (hasHeader ps t r))
    | _, _ => (ps, "bad-op")
  | "hashesto" :: rest =>
    match (kv rest "root").bind ofHex with
    | some r => (ps, toString (hashesTo ps r))
    | none => (ps, "bad-op")
  | "read" :: rest =>
    -- `GetReader()` on a complete set with at least one part, then `Read` with these buffer sizes
    match ps, (kv rest "sizes").map (fun s => (splitComma s).map String.toNat?) with
    | some s, some szs =>
      if szs.any Option.isNone then (ps, "bad-op")
      else if !(isComplete s) then (ps, "incomplete")
      else if s.total = 0 then (ps, "no-parts")
      else
        let r := readerOf s
        let chunks := rdSeq (szs.map (·.getD 0)) r.1 r.2
        (ps, ",".intercalate (chunks.map fun c => hexOrDash c.1 ++ (if c.2 then "!" else "")))
    | _, _ => (ps, "bad-op")
  | ["done"] =>
    match ps with
    | some s =>
      let c := isComplete s
      (ps, s!"complete={c} count={count s} bytes=" ++ (if c then hexOrDash (assemble s) else "?"))
    | none => (ps, "bad-op")
  | _ => (ps, "bad-op")

def showCons : ConsRes → String
  | .errValidate => "err-validate" | .ignoredHeight => "not-added"   -- the code answers (false, nil)
  | .ignoredNoParts => "not-added" | .errIndex => "err-index" | .errProof => "err-proof"
  | .dup => "not-added" | .tooBig a => s!"too-big added={a}" | .added => "added" | .complete => "complete"

/-- the consensus-side consumer (`cstate`/`cpart`/`cdone`) next to the plain part-set ops -/
def step2 (st : Option PartSet.PartSet × Option PartsState) (toks : List String) :
    (Option PartSet.PartSet × Option PartsState) × String :=
  match toks with
  | "cstate" :: rest =>
    match (kv rest "h").bind String.toInt?, (kv rest "max").bind String.toInt?, kv rest "total", kv rest "root" with
    | some h, some mx, some t, some r =>
      if t == "none" then ((st.1, some { height := h, maxBytes := mx, parts := none, block := none }), "ok")
      else match t.toNat?, ofHex r with
        | some tn, some rb =>
          ((st.1, some { height := h, maxBytes := mx, parts := some (fromHeader tn rb), block := none }), "ok")
        | _, _ => (st, "bad-op")
    | _, _, _, _ => (st, "bad-op")
  | "cpart" :: rest =>
    match st.2, (kv rest "h").bind String.toInt?, (kv rest "r").bind String.toInt?,
          (kv rest "idx").bind String.toNat?, (kv rest "bytes").bind ofHex, parseProof rest with
    | some cs, some h, some r, some idx, some b, some pr =>
      let (cs', res) := consAddPart Hs cs h r { index := idx, bytes := b, proof := pr }
      ((st.1, some cs'), showCons res)
    | _, _, _, _, _, _ => (st, "bad-op")
  | "proposal" :: rest =>
    match (kv rest "type").bind String.toNat?, (kv rest "h").bind String.toInt?, (kv rest "r").bind String.toInt?,
          (kv rest "pol").bind String.toInt?, (kv rest "bh").bind ofHex, (kv rest "total").bind String.toNat?,
          (kv rest "root").bind ofHex, (kv rest "siglen").bind String.toNat? with
    | some ty, some h, some r, some pol, some bh, some t, some root, some sl =>
      (st, match proposalValidateBasic { isProposalType := ty == 32, height := h, round := r, polRound := pol,
                                         blockHash := bh, total := t, root := root, sigLen := sl } with
        | .ok _ => "ok" | .error .type => "err-type" | .error .height => "err-height"
        | .error .round => "err-round" | .error .pol => "err-pol" | .error .blockID => "err-blockid"
        | .error .incomplete => "err-incomplete" | .error .sigMissing => "err-sig-missing"
        | .error .sigTooBig => "err-sig-too-big")
    | _, _, _, _, _, _, _, _ => (st, "bad-op")
  | ["cdone"] =>
    match st.2 with
    | some cs =>
      let p := match cs.parts with
        | some ps => s!"complete={isComplete ps} count={count ps} size={byteSize ps}"
        | none => "noparts"
      let b := match cs.block with
        | some bz => toHex (Hs bz)
        | none => "nil"
      (st, p ++ " block=" ++ b)
    | none => (st, "bad-op")
  | _ => let (ps', out) := step st.1 toks; ((ps', st.2), out)

/-- the block store ops (`ssave`/`sload`) next to the rest -/
def step3 (st : (Option PartSet.PartSet × Option PartsState) × BStore) (toks : List String) :
    ((Option PartSet.PartSet × Option PartsState) × BStore) × String :=
  match toks with
  | "ssave" :: rest =>
    match (kv rest "h").bind String.toInt?, (kv rest "data").bind ofHex, (kv rest "psize").bind String.toNat? with
    | some h, some d, some k =>
      if k = 0 then (st, "bad-op") else
      let ps := fromData Hs d k
      ((st.1, bsSave st.2 h ps), s!"saved {ps.total} {toHex ps.hash}")
    | _, _, _ => (st, "bad-op")
  | "sload" :: rest =>
    match (kv rest "h").bind String.toInt? with
    | some h =>
      match bsParts st.2 h with
      | none => (st, "nil")
      | some ps =>
        let b := match bsLoadBlock st.2 h with
          | some bz => toHex (Hs bz)
          | none => "nil"
        (st, s!"block={b} hdr={ps.total}/{toHex ps.hash} parts=" ++
          ";".intercalate ((List.range ps.total).map fun i => match bsLoadPart st.2 h i with
            | some q => s!"{q.index}:" ++ hexOrDash q.bytes ++ "/" ++ showProof q.proof
            | none => "?"))
    | none => (st, "bad-op")
  | _ => let (s', out) := step2 st.1 toks; ((s', st.2), out)

def machine : Machine :=
  { σ := (Option PartSet.PartSet × Option PartsState) × BStore, init := ((none, none), { blocks := [] }), step := step3 }

end Tmv.Drv.C10

def main : IO Unit := Tmv.Drv.run Tmv.Drv.C10.machine
